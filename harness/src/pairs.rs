//! C04 / C05 / C06 / C12 — whole-layout "tree pair" (metamorphic) checks on the implementation.
//!
//! Every case generates a style tree A (treegen::gen_tree + biased post-passes that live in this module), derives the
//! transformed tree B, lays both out on fresh TaffyTrees with rounding disabled, and evaluates the property's predicate on
//! the two lists of unrounded layouts (preorder). The request line carries both trees and both layout lists, so the Lean
//! driver (Drv/Pairs.lean) re-evaluates the same predicate on the implementation's observations (and re-checks that B is the
//! stated transformation of A as far as the tree line serialises it):
//!
//!   obs <PROP> <params…> | <tree A> | <tree B> | <layouts A> | <layouts B>      answer: `ok` | `bad <tag> <first failing node>`
//!   panic <PROP> a|b|both                                                     answer: `ok` (both) | `bad panic`
//!   note <PROP> <label> | <tree> | <layouts>                                    answer: `ok`
//!
//! params:  C04 `<e> <avA w> <avA h> <avB w> <avB h>` · C05 `<av w> <av h> <idx> <subtree size>` ·
//!          C06 `<av w> <av h> <idx> <subtree size> <g>` (g = 1: grid parent and non-auto grid lines) ·
//!          C12 `<av w> <av h> <k> <idx_1> … <idx_k>` (preorder indices of the switched nodes)
#![allow(dead_code)]
use crate::common::*;
use crate::stylefmt::*;
use crate::treegen::*;
use taffy::prelude::*;
use taffy::style::{CompactLength, MaxTrackSizingFunction, MinTrackSizingFunction, NonRepeatedTrackSizingFunction, TrackSizingFunction};
use taffy::{BoxSizing, GridTrackRepetition, MinMax};

// ---------------------------------------------------------------------------------------------------------
// shared helpers

fn lay(d: &TreeDesc, avail: Size<AvailableSpace>) -> Result<Vec<Layout>, String> {
    layout_fresh(d, avail, false).map(|(t, root)| all_layouts(&t, root, true))
}

/// the 20 f32 fields in `layout_line` order
fn fields(l: &Layout) -> [f32; 20] {
    [
        l.location.x,
        l.location.y,
        l.size.width,
        l.size.height,
        l.content_size.width,
        l.content_size.height,
        l.scrollbar_size.width,
        l.scrollbar_size.height,
        l.border.left,
        l.border.right,
        l.border.top,
        l.border.bottom,
        l.padding.left,
        l.padding.right,
        l.padding.top,
        l.padding.bottom,
        l.margin.left,
        l.margin.right,
        l.margin.top,
        l.margin.bottom,
    ]
}
/// indices (into `fields`) of content_size
const CONTENT: [usize; 2] = [4, 5];

/// canonical bits: −0.0 → +0.0, every NaN → 7fc00000
fn cb(x: f32) -> u32 {
    if x.is_nan() {
        0x7fc0_0000
    } else if x.to_bits() == 0x8000_0000 {
        0
    } else {
        x.to_bits()
    }
}
fn same_fields(a: &Layout, b: &Layout, skip_content: bool) -> bool {
    let (fa, fb) = (fields(a), fields(b));
    (0..20).all(|i| (skip_content && CONTENT.contains(&i)) || cb(fa[i]) == cb(fb[i]))
}
fn all_zero(l: &Layout) -> bool {
    fields(l).iter().all(|x| cb(*x) == 0)
}
fn layouts_str(ls: &[Layout]) -> String {
    ls.iter().map(layout_line).collect::<Vec<_>>().join(" ")
}
fn avs(a: Size<AvailableSpace>) -> String {
    format!("{} {}", av(a.width), av(a.height))
}

#[derive(Clone, Copy)]
struct Info {
    parent: Option<usize>,
    size: usize,
}
fn flatten(d: &TreeDesc) -> Vec<Info> {
    fn go(d: &TreeDesc, parent: Option<usize>, out: &mut Vec<Info>) {
        let me = out.len();
        out.push(Info { parent, size: 0 });
        for c in &d.children {
            go(c, Some(me), out);
        }
        out[me].size = out.len() - me;
    }
    let mut v = vec![];
    go(d, None, &mut v);
    v
}
fn node_at<'a>(d: &'a TreeDesc, idx: usize) -> &'a TreeDesc {
    let mut v = vec![];
    d.preorder(&mut v);
    v[idx]
}
fn node_at_mut(d: &mut TreeDesc, idx: usize) -> &mut TreeDesc {
    fn go<'a>(d: &'a mut TreeDesc, idx: usize, cur: &mut usize) -> Option<&'a mut TreeDesc> {
        if *cur == idx {
            return Some(d);
        }
        *cur += 1;
        for c in d.children.iter_mut() {
            if let Some(x) = go(c, idx, cur) {
                return Some(x);
            }
        }
        None
    }
    let mut cur = 0;
    go(d, idx, &mut cur).expect("preorder index in range")
}
/// map a preorder index of A outside the subtree [idx, idx+sz) to the index in B (subtree replaced by one leaf)
fn map_idx(j: usize, idx: usize, sz: usize) -> usize {
    if j < idx {
        j
    } else {
        j - sz + 1
    }
}
fn display_key(d: Display) -> &'static str {
    match d {
        Display::Block => "block",
        Display::Flex => "flex",
        Display::Grid => "grid",
        Display::None => "none",
    }
}
fn bucket(n: usize) -> &'static str {
    match n {
        0 => "0",
        1 => "1",
        2 => "2",
        3..=4 => "3-4",
        5..=8 => "5-8",
        _ => "9+",
    }
}
fn placement_is_auto(l: &Line<GridPlacement>) -> bool {
    l.start == GridPlacement::Auto && l.end == GridPlacement::Auto
}
fn count_tree(out: &mut Out, d: &TreeDesc) {
    let mut v = vec![];
    d.preorder(&mut v);
    out.count(&format!("nodes:{}", bucket(v.len())));
    for n in &v {
        if !n.children.is_empty() {
            out.count(&format!("container:{}", display_key(n.style.display)));
        }
    }
}

/// generate a tree with at least `min_nodes` nodes (redraws from the same stream: deterministic per case)
fn gen_tree_min(r: &mut Rng, c: &GenCfg, min_nodes: usize) -> TreeDesc {
    loop {
        let t = gen_tree(r, c);
        if t.count() >= min_nodes {
            return t;
        }
    }
}
fn pairs_cfg() -> GenCfg {
    let mut c = GenCfg::all();
    c.max_nodes = 12;
    c.max_depth = 4;
    c
}

/// `k` distinct non-root preorder indices
fn pick_nonroot(r: &mut Rng, n: usize, k: usize) -> Vec<usize> {
    let mut v: Vec<usize> = vec![];
    if n < 2 {
        return v;
    }
    for _ in 0..k {
        let i = 1 + r.below(n - 1);
        if !v.contains(&i) {
            v.push(i);
        }
    }
    v.sort();
    v
}

fn gen_line_placement(r: &mut Rng) -> Line<GridPlacement> {
    let one = |r: &mut Rng| match r.below(5) {
        0 => GridPlacement::Auto,
        1 => GridPlacement::Span(r.range(1, 3) as u16),
        _ => GridPlacement::from_line_index(r.range(-5, 6) as i16),
    };
    Line { start: one(r), end: one(r) }
}

/// emit the lines for a pair one side of which panicked; returns true when the pair cannot be compared
fn report_panic(out: &mut Out, prop: &str, a: &Result<Vec<Layout>, String>, b: &Result<Vec<Layout>, String>, ta: &TreeDesc, tb: &TreeDesc) -> bool {
    match (a, b) {
        (Ok(_), Ok(_)) => false,
        (Err(m), Err(_)) => {
            out.count("panic:both");
            if std::env::var("PAIRS_DEBUG").is_ok() {
                eprintln!("case {} both panic: {m}", out.cur_case);
                for w in [200.0f32, 0.0] {
                    let av = Size { width: AvailableSpace::Definite(w), height: AvailableSpace::MaxContent };
                    if lay(ta, av).is_err() {
                        eprintln!("  with avail {w} x max: {}", minimised(ta, &|t: &TreeDesc| lay(t, av).is_err()));
                    }
                }
            }
            out.qa(&format!("panic {prop} both"), "ok");
            true
        }
        (Err(m), Ok(_)) => {
            out.impl_violation(format!("sig:panic {prop}: only tree A panicked ({m}); A = {}", ta.line()));
            out.qa(&format!("panic {prop} a"), "bad panic");
            true
        }
        (Ok(_), Err(m)) => {
            out.impl_violation(format!("sig:panic {prop}: only tree B panicked ({m}); B = {}", tb.line()));
            out.qa(&format!("panic {prop} b"), "bad panic");
            true
        }
    }
}

fn obs(out: &mut Out, prop: &str, params: &str, ta: &TreeDesc, tb: &TreeDesc, la: &[Layout], lb: &[Layout], ans: &str) {
    let req = format!("obs {prop} {params} | {} | {} | {} | {}", ta.line(), tb.line(), layouts_str(la), layouts_str(lb));
    out.qa(&req, ans);
}

// ---------------------------------------------------------------------------------------------------------
// C04 — homogeneity under uniform scaling

fn sc_lp(x: LengthPercentage, k: f32) -> LengthPercentage {
    let c = x.into_raw();
    if c.tag() == CompactLength::LENGTH_TAG {
        LengthPercentage::length(c.value() * k)
    } else {
        x
    }
}
fn sc_lpa(x: LengthPercentageAuto, k: f32) -> LengthPercentageAuto {
    let c = x.into_raw();
    if c.tag() == CompactLength::LENGTH_TAG {
        LengthPercentageAuto::length(c.value() * k)
    } else {
        x
    }
}
fn sc_dim(x: Dimension, k: f32) -> Dimension {
    let c = x.into_raw();
    if c.tag() == CompactLength::LENGTH_TAG {
        Dimension::length(c.value() * k)
    } else {
        x
    }
}
fn sc_min(x: MinTrackSizingFunction, k: f32) -> MinTrackSizingFunction {
    let c = x.into_raw();
    if c.tag() == CompactLength::LENGTH_TAG {
        MinTrackSizingFunction::length(c.value() * k)
    } else {
        x
    }
}
fn sc_max(x: MaxTrackSizingFunction, k: f32) -> MaxTrackSizingFunction {
    let c = x.into_raw();
    if c.tag() == CompactLength::LENGTH_TAG {
        MaxTrackSizingFunction::length(c.value() * k)
    } else if c.tag() == CompactLength::FIT_CONTENT_PX_TAG {
        MaxTrackSizingFunction::fit_content_px(c.value() * k)
    } else {
        x
    }
}
fn sc_nr(t: &NonRepeatedTrackSizingFunction, k: f32) -> NonRepeatedTrackSizingFunction {
    MinMax { min: sc_min(t.min, k), max: sc_max(t.max, k) }
}
fn sc_tsf(t: &TrackSizingFunction, k: f32) -> TrackSizingFunction {
    match t {
        TrackSizingFunction::Single(x) => TrackSizingFunction::Single(sc_nr(x, k)),
        TrackSizingFunction::Repeat(rep, v) => TrackSizingFunction::Repeat(*rep, v.iter().map(|x| sc_nr(x, k)).collect()),
    }
}
fn sc_rect_lpa(x: Rect<LengthPercentageAuto>, k: f32) -> Rect<LengthPercentageAuto> {
    Rect { left: sc_lpa(x.left, k), right: sc_lpa(x.right, k), top: sc_lpa(x.top, k), bottom: sc_lpa(x.bottom, k) }
}
fn sc_rect_lp(x: Rect<LengthPercentage>, k: f32) -> Rect<LengthPercentage> {
    Rect { left: sc_lp(x.left, k), right: sc_lp(x.right, k), top: sc_lp(x.top, k), bottom: sc_lp(x.bottom, k) }
}
fn sc_size_dim(x: Size<Dimension>, k: f32) -> Size<Dimension> {
    Size { width: sc_dim(x.width, k), height: sc_dim(x.height, k) }
}
/// every absolute length × k; percentages, factors, ratios, enums, grid lines untouched
fn scale_style(s: &Style, k: f32) -> Style {
    let mut t = s.clone();
    t.scrollbar_width = s.scrollbar_width * k;
    t.inset = sc_rect_lpa(s.inset, k);
    t.size = sc_size_dim(s.size, k);
    t.min_size = sc_size_dim(s.min_size, k);
    t.max_size = sc_size_dim(s.max_size, k);
    t.margin = sc_rect_lpa(s.margin, k);
    t.padding = sc_rect_lp(s.padding, k);
    t.border = sc_rect_lp(s.border, k);
    t.gap = Size { width: sc_lp(s.gap.width, k), height: sc_lp(s.gap.height, k) };
    t.flex_basis = sc_dim(s.flex_basis, k);
    t.grid_template_rows = s.grid_template_rows.iter().map(|x| sc_tsf(x, k)).collect();
    t.grid_template_columns = s.grid_template_columns.iter().map(|x| sc_tsf(x, k)).collect();
    t.grid_auto_rows = s.grid_auto_rows.iter().map(|x| sc_nr(x, k)).collect();
    t.grid_auto_columns = s.grid_auto_columns.iter().map(|x| sc_nr(x, k)).collect();
    t
}
fn scale_tree(d: &TreeDesc, k: f32) -> TreeDesc {
    TreeDesc {
        style: scale_style(&d.style, k),
        ctx: d.ctx.map(|c| match c {
            Ctx::Fixed(w, h) => Ctx::Fixed(w * k, h * k),
            Ctx::Wrap(w, h) => Ctx::Wrap(w * k, h * k),
        }),
        children: d.children.iter().map(|c| scale_tree(c, k)).collect(),
    }
}
fn scale_av(a: Size<AvailableSpace>, k: f32) -> Size<AvailableSpace> {
    let one = |x: AvailableSpace| match x {
        AvailableSpace::Definite(v) => AvailableSpace::Definite(v * k),
        o => o,
    };
    Size { width: one(a.width), height: one(a.height) }
}
fn pow2(e: i32) -> f32 {
    f32::from_bits(((127 + e) as u32) << 23)
}
/// first node at which lb ≠ k·la (bit-exact after canonicalisation), or a length mismatch
fn first_inhomogeneous(la: &[Layout], lb: &[Layout], k: f32) -> Option<usize> {
    if la.len() != lb.len() {
        return Some(la.len().min(lb.len()));
    }
    for i in 0..la.len() {
        let (fa, fb) = (fields(&la[i]), fields(&lb[i]));
        if la[i].order != lb[i].order || (0..20).any(|j| cb(fa[j] * k) != cb(fb[j])) {
            return Some(i);
        }
    }
    None
}

/// extra track kinds treegen does not draw: fit-content(px/%), minmax(px, px|auto|max-content|fr), repeat(auto-fill)
fn extra_track(r: &mut Rng) -> NonRepeatedTrackSizingFunction {
    let px = |r: &mut Rng| r.range(0, 24) as f32 * 2.5;
    match r.below(8) {
        0 | 1 => fit_content(LengthPercentage::length(px(r))),
        2 => fit_content(LengthPercentage::percent(gen_pct(r) * 0.5)),
        3 => minmax(MinTrackSizingFunction::length(px(r)), MaxTrackSizingFunction::length(px(r))),
        4 => minmax(MinTrackSizingFunction::length(px(r)), MaxTrackSizingFunction::auto()),
        5 => minmax(MinTrackSizingFunction::length(px(r)), MaxTrackSizingFunction::max_content()),
        6 => minmax(MinTrackSizingFunction::min_content(), MaxTrackSizingFunction::length(px(r))),
        _ => minmax(MinTrackSizingFunction::auto(), MaxTrackSizingFunction::fit_content_px(px(r))),
    }
}
fn c04_bias(r: &mut Rng, d: &mut TreeDesc) {
    d.map_styles(&mut |s, _| {
        if s.display == Display::Grid {
            if r.chance(1, 3) {
                s.grid_template_columns.push(TrackSizingFunction::Single(extra_track(r)));
            }
            if r.chance(1, 3) {
                s.grid_template_rows.push(TrackSizingFunction::Single(extra_track(r)));
            }
            if r.chance(1, 6) {
                s.grid_auto_rows = vec![extra_track(r)];
            }
            if r.chance(1, 6) {
                s.grid_auto_columns = vec![extra_track(r)];
            }
            if r.chance(1, 12) {
                // auto-fill needs an all-fixed template
                let w = r.range(1, 12) as f32 * 5.0;
                let rep = if r.chance(1, 2) { GridTrackRepetition::AutoFill } else { GridTrackRepetition::AutoFit };
                s.grid_template_columns = vec![TrackSizingFunction::Repeat(rep, vec![length(w)]), TrackSizingFunction::Single(length(10.0))];
            }
        }
        // more flex items on the intrinsic-size path with small bases (both sides of the floor-at-1)
        if r.chance(1, 10) {
            s.flex_basis = Dimension::length(*r.pick(&[0.25, 0.5, 0.875, 1.0, 2.0, 8.0]));
        }
    });
}

fn c04_has_flex_path(d: &TreeDesc) -> bool {
    d.has_display(Display::Flex)
}

fn has_grid_container(d: &TreeDesc) -> bool {
    (d.style.display == Display::Grid && !d.children.is_empty()) || d.children.iter().any(has_grid_container)
}
/// lb = k·la up to the absolute thresholds of grid track sizing (0.01 and 1e-6 in track_sizing.rs, in either tree's
/// units) and a few ulps: |b − k·a| ≤ 0.05·(1 + k) + 2^-16·|b|
fn within_threshold_tol(la: &[Layout], lb: &[Layout], k: f32) -> bool {
    la.len() == lb.len()
        && la.iter().zip(lb).all(|(x, y)| {
            x.order == y.order
                && fields(x).iter().zip(fields(y).iter()).all(|(a, b)| {
                    let ka = a * k;
                    cb(ka) == cb(*b) || (ka.is_finite() && b.is_finite() && (b - ka).abs() <= 0.05 * (1.0 + k) + b.abs() / 65536.0)
                })
        })
}

/// how often a length met one of taffy's absolute constants during the last layout (cfg(taffy_verif) hooks)
#[derive(Clone, Copy, Default, Debug)]
struct Hits {
    /// flexbox.rs: `f32_max(1.0, flex_shrink * inner_flex_basis)` took the floor with a non-zero basis
    floor: u32,
    /// grid track_sizing.rs: a positive length was at or below THRESHOLD (0.01 / 1e-6)
    thr: u32,
}
fn lay_hits(d: &TreeDesc, avail: Size<AvailableSpace>) -> (Result<Vec<Layout>, String>, Hits) {
    taffy::verif_hooks::take_shrink_floor_hits();
    taffy::verif_hooks::take_track_threshold_hits();
    let r = lay(d, avail);
    (r, Hits { floor: taffy::verif_hooks::take_shrink_floor_hits(), thr: taffy::verif_hooks::take_track_threshold_hits() })
}

/// attribution of a C04 mismatch to the known findings (their neutralisers); returns (signature, how) or None = new.
///  * c04-grid-track-threshold: one of the two layouts met a grid track-sizing threshold (hook) and B = k·A up to those
///    thresholds;
///  * c04-flex-shrink-floor-at-one: one of the two layouts took the floor in `f32_max(1.0, flex_shrink · inner_flex_basis)`
///    with a non-zero basis (hook), and the same tree lifted by 2^12 — which keeps every such product on the ≥ 1 side in both
///    trees unless flex_shrink = 0 — is homogeneous ("threshold"), or is once flex_shrink 0 ↦ 1 ("shrink0": with flex_shrink = 0
///    the contribution `1 · basis · diff` is quadratic in k at every scale). If a lifted layout meets a grid threshold the
///    lifted pair is compared up to the grid thresholds.
/// a grid container with an auto-repetition whose tracks are all fixed at zero and whose gap on that axis is zero: the number of
/// repetitions is computed with the repetition counted as 1px wide (known finding c04-auto-repeat-one-px-floor)
fn has_zero_size_auto_repeat(a: &TreeDesc) -> bool {
    let zero_fixed = |f: &taffy::NonRepeatedTrackSizingFunction| {
        let z = |c: CompactLength| c.tag() == CompactLength::LENGTH_TAG && c.value() == 0.0;
        z(f.min.into_raw()) && z(f.max.into_raw())
    };
    let axis = |tpl: &Vec<TrackSizingFunction>, gap: LengthPercentage| {
        let gz = {
            let c = gap.into_raw();
            (c.tag() == CompactLength::LENGTH_TAG || c.tag() == CompactLength::PERCENT_TAG) && c.value() == 0.0
        };
        gz && tpl.iter().any(|t| matches!(t, TrackSizingFunction::Repeat(GridTrackRepetition::AutoFill | GridTrackRepetition::AutoFit, fs) if fs.iter().all(zero_fixed)))
    };
    let mut nodes = vec![];
    a.preorder(&mut nodes);
    nodes.iter().any(|n| n.style.display == Display::Grid && (axis(&n.style.grid_template_columns, n.style.gap.width) || axis(&n.style.grid_template_rows, n.style.gap.height)))
}

fn c04_attribute(a: &TreeDesc, avail: Size<AvailableSpace>, e: i32, la: &[Layout], lb: &[Layout], ha: Hits, hb: Hits) -> Option<(&'static str, &'static str)> {
    if has_zero_size_auto_repeat(a) {
        return Some(("c04-auto-repeat-one-px-floor", "zero-size-auto-repetition"));
    }
    if ha.thr + hb.thr > 0 && within_threshold_tol(la, lb, pow2(e)) {
        return Some(("c04-grid-track-threshold", "within-tolerance"));
    }
    // the per-node cache compares available spaces with an ABSOLUTE tolerance (`AvailableSpace::is_roughly_equal`:
    // |a − b| < f32::EPSILON): at a scale where distinct definite available spaces differ by less than that, lookups hit
    // that miss at the other scale. Neutraliser: the same pair laid out with exact cache keys (hook H1) is homogeneous.
    {
        struct Restore(bool);
        impl Drop for Restore {
            fn drop(&mut self) {
                taffy::verif_hooks::set_exact_key_mode(self.0);
            }
        }
        let _g = Restore(taffy::verif_hooks::exact_key_mode());
        taffy::verif_hooks::set_exact_key_mode(true);
        let k = pow2(e);
        if let ((Ok(x), _), (Ok(y), hy)) = (lay_hits(a, avail), lay_hits(&scale_tree(a, k), scale_av(avail, k))) {
            if first_inhomogeneous(&x, &y, k).is_none() || (hy.thr > 0 && within_threshold_tol(&x, &y, k)) {
                return Some(("c04-cache-absolute-epsilon", "exact-key-mode"));
            }
        }
    }
    if ha.floor + hb.floor == 0 {
        return None;
    }
    let lift = |t: &TreeDesc| -> bool {
        let (k1, k2) = (pow2(12), pow2(12 + e));
        let (t1, t2) = (scale_tree(t, k1), scale_tree(t, k2));
        match (lay_hits(&t1, scale_av(avail, k1)), lay_hits(&t2, scale_av(avail, k2))) {
            ((Ok(l1), h1), (Ok(l2), h2)) => {
                first_inhomogeneous(&l1, &l2, pow2(e)).is_none() || (h1.thr + h2.thr > 0 && within_threshold_tol(&l1, &l2, pow2(e)))
            }
            _ => false,
        }
    };
    if lift(a) {
        return Some(("c04-flex-shrink-floor-at-one", "threshold"));
    }
    let mut a2 = a.clone();
    a2.map_styles(&mut |s, _| {
        if s.flex_shrink == 0.0 {
            s.flex_shrink = 1.0;
        }
    });
    if lift(&a2) {
        return Some(("c04-flex-shrink-floor-at-one", "shrink0"));
    }
    None
}

fn c04_one(out: &mut Out, a: &TreeDesc, avail: Size<AvailableSpace>, e: i32) {
    let k = pow2(e);
    let b = scale_tree(a, k);
    let avail_b = scale_av(avail, k);
    let ((ra, ha), (rb, hb)) = (lay_hits(a, avail), lay_hits(&b, avail_b));
    if ha.floor + hb.floor > 0 {
        out.count("hook:flex-shrink-floor-taken");
    }
    if ha.thr + hb.thr > 0 {
        out.count("hook:grid-threshold-met");
    }
    if report_panic(out, "C04", &ra, &rb, a, &b) {
        return;
    }
    let (la, lb) = (ra.unwrap(), rb.unwrap());
    count_tree(out, a);
    out.count(&format!("e:{e}"));
    out.count(&format!("avail:{}", match avail.width {
        AvailableSpace::Definite(_) => "definite",
        AvailableSpace::MinContent => "min-content",
        AvailableSpace::MaxContent => "max-content",
    }));
    if la.iter().any(|l| !all_zero(l)) {
        out.nontrivial();
    } else {
        out.count("all-zero-layout");
    }
    let ans = match first_inhomogeneous(&la, &lb, k) {
        None => "ok".to_string(),
        Some(i) => {
            let how = c04_attribute(a, avail, e, &la, &lb, ha, hb);
            let desc = format!(
                "node {i}: layout of 2^{e}·tree ≠ 2^{e}·layout: A[{i}] = {} ; B[{i}] = {} ; avail {} ; tree A = {}",
                layout_line(&la[i]),
                layout_line(&lb[i]),
                avs(avail),
                a.line()
            );
            if let Some((sig, how)) = how {
                out.count(&format!("known:{sig}:{how}"));
                out.impl_violation(format!("sig:{sig} ({how}) {desc}"));
            } else {
                let fails = |t: &TreeDesc| -> bool {
                    match (lay_hits(t, avail), lay_hits(&scale_tree(t, k), avail_b)) {
                        ((Ok(x), hx), (Ok(y), hy)) => first_inhomogeneous(&x, &y, k).is_some() && c04_attribute(t, avail, e, &x, &y, hx, hy).is_none(),
                        _ => false,
                    }
                };
                if std::env::var("PAIRS_DEBUG").is_ok() {
                    let m = shrink(a.clone(), &fails);
                    for ee in [0, e, 12, 12 + e] {
                        let kk = pow2(ee);
                        let l = lay(&scale_tree(&m, kk), scale_av(avail, kk)).unwrap();
                        eprintln!("scale 2^{ee}:");
                        for x in &l {
                            let f: Vec<f32> = fields(x).iter().map(|v| v / kk).collect();
                            eprintln!("   {:?}", f);
                        }
                    }
                }
                out.impl_violation(format!("sig:c04-not-homogeneous {desc} ; {}", minimised(a, &fails)));
            }
            format!("bad c04-not-homogeneous {i}")
        }
    };
    let params = format!("{e} {} {}", avs(avail), avs(avail_b));
    obs(out, "C04", &params, a, &b, &la, &lb, &ans);
}

pub fn run_c04(cfg: &Cfg, out: &mut Out) -> String {
    let mut idx = 0u64;
    // fixed: the design's witness (§9 item 14)
    if cfg.wants(idx) {
        out.begin_case(idx, "fixed:flex-shrink-floor-at-one-witness");
        let mut item = Style::DEFAULT;
        item.flex_basis = Dimension::length(0.875);
        item.flex_shrink = 0.5;
        let root = Style::DEFAULT; // flex row, auto width
        let a = TreeDesc { style: root, ctx: None, children: vec![TreeDesc { style: item, ctx: Some(Ctx::Fixed(0.5, 1.0)), children: vec![] }] };
        c04_one(out, &a, Size { width: AvailableSpace::MaxContent, height: AvailableSpace::MaxContent }, 4);
    }
    idx += 1;
    // fixed: witness of the grid track-sizing threshold (distribute_space_up_to_limits stops at 0.01 px of free space):
    // a 2^-7 px wide grid with one minmax(0, 100px) column keeps the column at 0; 16 times larger the column is 0.125 wide
    if cfg.wants(idx) {
        out.begin_case(idx, "fixed:grid-track-threshold-witness");
        let mut g = Style::DEFAULT;
        g.display = Display::Grid;
        g.size.width = Dimension::length(0.0078125);
        g.grid_template_columns = vec![minmax(MinTrackSizingFunction::length(0.0), MaxTrackSizingFunction::length(100.0))];
        let a = TreeDesc { style: g, ctx: None, children: vec![TreeDesc { style: Style::DEFAULT, ctx: None, children: vec![] }] };
        c04_one(out, &a, Size { width: AvailableSpace::MaxContent, height: AvailableSpace::MaxContent }, 4);
    }
    idx += 1;
    // fixed: witness of the 1px floor of a zero-size auto-repetition (known finding c04-auto-repeat-one-px-floor):
    // repeat(auto-fill, 0px) in a 10px-wide grid, a child on column line 15
    if cfg.wants(idx) {
        out.begin_case(idx, "fixed:auto-repeat-one-px-floor-witness");
        let mut g = Style::DEFAULT;
        g.display = Display::Grid;
        g.size.width = Dimension::length(10.0);
        g.grid_template_columns = vec![TrackSizingFunction::Repeat(GridTrackRepetition::AutoFill, vec![length(0.0)])];
        let mut c = Style::DEFAULT;
        c.grid_column = Line { start: GridPlacement::from_line_index(15), end: GridPlacement::Auto };
        let a = TreeDesc { style: g, ctx: None, children: vec![TreeDesc { style: c, ctx: Some(Ctx::Fixed(7.0, 7.0)), children: vec![] }] };
        c04_one(out, &a, Size { width: AvailableSpace::MaxContent, height: AvailableSpace::MaxContent }, 1);
    }
    idx += 1;
    // fixed: witness of the cache's absolute tolerance (known finding c04-cache-absolute-epsilon): at 2^-40 every definite
    // available space in this flex chain is within f32::EPSILON of every other, so lookups hit that miss at scale 1
    if cfg.wants(idx) {
        out.begin_case(idx, "fixed:cache-absolute-epsilon-witness");
        let mut c1 = Style::DEFAULT;
        c1.size.height = Dimension::length(39.75);
        c1.min_size.width = Dimension::length(70.5);
        c1.padding.right = LengthPercentage::percent(0.125);
        c1.padding.top = LengthPercentage::percent(0.125);
        let mut c2 = Style::DEFAULT;
        c2.size.width = Dimension::length(0.0);
        c2.padding.top = LengthPercentage::percent(0.375);
        c2.align_self = Some(AlignSelf::FlexEnd);
        let mut c3 = Style::DEFAULT;
        c3.border.right = LengthPercentage::length(9.75);
        let n = |s: Style, ch: Vec<TreeDesc>| TreeDesc { style: s, ctx: None, children: ch };
        let a = n(Style::DEFAULT, vec![n(c1, vec![n(c2, vec![n(c3, vec![])])])]);
        c04_one(out, &a, Size { width: AvailableSpace::MaxContent, height: AvailableSpace::MaxContent }, -40);
    }
    idx += 1;
    // fixed: a tree that must be exactly homogeneous (block/grid/flex with definite sizes)
    if cfg.wants(idx) {
        out.begin_case(idx, "fixed:plain-homogeneous");
        let mut leaf = Style::DEFAULT;
        leaf.size = Size { width: Dimension::length(12.5), height: Dimension::percent(0.5) };
        leaf.margin.left = LengthPercentageAuto::length(-2.5);
        let mut g = Style::DEFAULT;
        g.display = Display::Grid;
        g.grid_template_columns = vec![length(20.0), fr(1.0), fit_content(LengthPercentage::length(30.0))];
        g.grid_auto_rows = vec![length(30.0)];
        g.gap = Size { width: LengthPercentage::length(1.5), height: LengthPercentage::percent(0.125) };
        g.padding.left = LengthPercentage::length(3.0);
        let l = |s: &Style, c| TreeDesc { style: s.clone(), ctx: c, children: vec![] };
        let a = TreeDesc {
            style: g,
            ctx: None,
            children: vec![l(&leaf, None), l(&Style::DEFAULT, Some(Ctx::Wrap(40.0, 5.0))), l(&leaf, Some(Ctx::Fixed(7.0, 3.0)))],
        };
        c04_one(out, &a, Size { width: AvailableSpace::Definite(100.0), height: AvailableSpace::MaxContent }, -3);
    }
    idx += 1;
    let n = cfg.n(8000, 120_000);
    let gc = pairs_cfg();
    for i in 0..n {
        let ci = idx + i;
        if !cfg.wants(ci) {
            continue;
        }
        let mut r = Rng::for_case(cfg.seed, ci);
        out.begin_case(ci, "scaled-pair");
        let min_nodes = if r.chance(1, 12) { 1 } else { 2 };
        let mut a = gen_tree_min(&mut r, &gc, min_nodes);
        c04_bias(&mut r, &mut a);
        let avail = gen_available(&mut r);
        // one case in ten at an extreme factor: lengths far below every absolute constant in the code (f32::EPSILON,
        // the grid thresholds) or far above them
        let e = if r.chance(1, 10) { *r.pick(&[-40, -30, -24, 24, 30]) } else { *r.pick(&[-3, -2, -1, 1, 2, 3, 4, 5, 6, 7, 8]) };
        c04_one(out, &a, avail, e);
    }
    String::new()
}

// ---------------------------------------------------------------------------------------------------------
// C05 — display:none subtrees are zeroed and invisible

fn bare_hidden() -> TreeDesc {
    let mut s = Style::DEFAULT;
    s.display = Display::None;
    TreeDesc { style: s, ctx: None, children: vec![] }
}
fn replace_subtree(a: &TreeDesc, idx: usize, with: TreeDesc) -> TreeDesc {
    let mut b = a.clone();
    *node_at_mut(&mut b, idx) = with;
    b
}
/// `a` without the subtree rooted at preorder index `idx` (idx ≥ 1)
fn remove_subtree(a: &TreeDesc, idx: usize) -> TreeDesc {
    fn go(d: &TreeDesc, next: &mut usize, idx: usize) -> Option<TreeDesc> {
        let me = *next;
        *next += 1;
        if me == idx {
            // skip the whole subtree
            *next = me + d.count();
            return None;
        }
        let mut out = TreeDesc { style: d.style.clone(), ctx: d.ctx, children: vec![] };
        for c in &d.children {
            if let Some(k) = go(c, next, idx) {
                out.children.push(k);
            }
        }
        Some(out)
    }
    let mut n = 0;
    go(a, &mut n, idx).expect("root cannot be removed")
}

/// for every preorder index: is the node display:none or below such a node
fn hidden_flags(d: &TreeDesc) -> Vec<bool> {
    fn go(d: &TreeDesc, under: bool, out: &mut Vec<bool>) {
        let h = under || d.style.display == Display::None;
        out.push(h);
        for c in &d.children {
            go(c, h, out);
        }
    }
    let mut v = vec![];
    go(d, false, &mut v);
    v
}

/// returns the answer for one picked hidden node
fn c05_judge(hid_a: &[bool], la: &[Layout], lb: &[Layout], pick: Option<(usize, usize)>) -> String {
    // (i) every node at or below a hidden node of A is all-zero; so is the replacement leaf in B
    for i in 0..la.len() {
        if hid_a[i] && !all_zero(&la[i]) {
            return format!("bad c05-hidden-not-zero {i}");
        }
    }
    // no pick: the identity pair (idx = len: nothing is skipped)
    let (idx, sz) = pick.unwrap_or((la.len(), 1));
    if lb.len() + sz != la.len() + 1 {
        return format!("bad c05-hidden-visible {}", lb.len());
    }
    if pick.is_some() && !all_zero(&lb[idx]) {
        return format!("bad c05-hidden-not-zero {idx}");
    }
    // (ii) every node outside the picked subtree has the same layout (all fields, order included)
    for j in 0..la.len() {
        if j >= idx && j < idx + sz {
            continue;
        }
        let jb = map_idx(j, idx, sz);
        if la[j].order != lb[jb].order || !same_fields(&la[j], &lb[jb], false) {
            return format!("bad c05-hidden-visible {j}");
        }
    }
    "ok".to_string()
}

/// some non-root hidden node of `t` violates the predicate (shrinking predicate)
fn c05_fails(t: &TreeDesc, avail: Size<AvailableSpace>) -> bool {
    let info = flatten(t);
    let hid = hidden_flags(t);
    let mut nodes = vec![];
    t.preorder(&mut nodes);
    let la = match lay(t, avail) {
        Ok(l) => l,
        Err(_) => return false,
    };
    (1..nodes.len()).filter(|&i| nodes[i].style.display == Display::None).any(|h| match lay(&replace_subtree(t, h, bare_hidden()), avail) {
        Ok(lb) => c05_judge(&hid, &la, &lb, Some((h, info[h].size))) != "ok",
        Err(_) => false,
    })
}

fn c05_tree(out: &mut Out, a: &TreeDesc, avail: Size<AvailableSpace>) {
    let info = flatten(a);
    let hid = hidden_flags(a);
    let mut nodes = vec![];
    a.preorder(&mut nodes);
    let picks: Vec<usize> = (1..nodes.len()).filter(|&i| nodes[i].style.display == Display::None).collect();
    let ra = lay(a, avail);
    count_tree(out, a);
    out.count(&format!("hidden-nodes:{}", bucket(picks.len())));
    if picks.is_empty() {
        // nothing to replace: still check clause (i) (trivially) through the identity pair
        if let Ok(la) = &ra {
            let ans = c05_judge(&hid, la, la, None);
            if ans != "ok" {
                out.impl_violation(format!("sig:c05-hidden-not-zero {ans}; avail {} ; tree A = {}", avs(avail), a.line()));
            }
            obs(out, "C05", &format!("{} - 0", avs(avail)), a, a, la, la, &ans);
        }
        return;
    }
    for &h in &picks {
        let sz = info[h].size;
        let b = replace_subtree(a, h, bare_hidden());
        let rb = lay(&b, avail);
        if report_panic(out, "C05", &ra, &rb, a, &b) {
            continue;
        }
        let (la, lb) = (ra.as_ref().unwrap(), rb.as_ref().unwrap());
        let parent = info[h].parent.unwrap();
        out.count(&format!("picked-parent:{}", display_key(nodes[parent].style.display)));
        out.count(&format!("picked-subtree:{}", bucket(sz)));
        let hs = &nodes[h].style;
        if !placement_is_auto(&hs.grid_row) || !placement_is_auto(&hs.grid_column) {
            out.count("picked-has-grid-lines");
            if nodes[parent].style.display == Display::Grid {
                out.count("picked-has-grid-lines-in-grid");
            }
        }
        if hs.position == Position::Absolute {
            out.count("picked-is-absolute");
        }
        if hid[parent] {
            out.count("picked-below-hidden");
        }
        let changed = sz > 1 || nodes[h].ctx.is_some() || *hs != bare_hidden().style;
        if changed && !hid[parent] {
            out.nontrivial();
        }
        let ans = c05_judge(&hid, la, lb, Some((h, sz)));
        if ans != "ok" {
            let tag = ans.split(' ').nth(1).unwrap().to_string();
            out.impl_violation(format!(
                "sig:{tag} picked hidden node {h} (subtree {sz}): {ans}; avail {} ; tree A = {} ; {}",
                avs(avail),
                a.line(),
                minimised(a, &|t: &TreeDesc| c05_fails(t, avail))
            ));
        }
        obs(out, "C05", &format!("{} {h} {sz}", avs(avail)), a, &b, la, lb, &ans);
    }
}

fn c05_bias(r: &mut Rng, d: &mut TreeDesc) {
    let n = d.count();
    let k = *r.pick(&[1usize, 1, 1, 2, 2, 3]);
    for i in pick_nonroot(r, n, k) {
        let t = node_at_mut(d, i);
        t.style.display = Display::None;
        if r.chance(1, 2) {
            t.style.grid_row = gen_line_placement(r);
        }
        if r.chance(1, 2) {
            t.style.grid_column = gen_line_placement(r);
        }
        if r.chance(1, 4) {
            // make sure the hidden node has something to hide
            t.style.size = Size { width: Dimension::length(gen_len(r)), height: Dimension::length(gen_len(r)) };
            t.style.margin.top = LengthPercentageAuto::length(r.range(0, 40) as f32 * 0.5);
        }
    }
}

pub fn run_c05(cfg: &Cfg, out: &mut Out) -> String {
    let mut idx = 0u64;
    let grid_fixture = |extra: Style| -> TreeDesc {
        let mut g = Style::DEFAULT;
        g.display = Display::Grid;
        g.size.width = Dimension::length(100.0);
        g.grid_auto_rows = vec![length(30.0)];
        let mut vis = Style::DEFAULT;
        vis.size = Size { width: Dimension::length(10.0), height: Dimension::length(10.0) };
        TreeDesc {
            style: g,
            ctx: None,
            children: vec![TreeDesc { style: vis, ctx: None, children: vec![] }, TreeDesc { style: extra, ctx: Some(Ctx::Fixed(20.0, 20.0)), children: vec![] }],
        }
    };
    let d200 = Size { width: AvailableSpace::Definite(200.0), height: AvailableSpace::Definite(200.0) };
    // fixed: the repaired defect's witness (§9 item 9): must leave the grid 30 high
    if cfg.wants(idx) {
        out.begin_case(idx, "fixed:hidden-grid-child-with-grid-row-5");
        let mut h = Style::DEFAULT;
        h.display = Display::None;
        h.grid_row = Line { start: GridPlacement::from_line_index(5), end: GridPlacement::Auto };
        let a = grid_fixture(h);
        if let Ok(la) = lay(&a, d200) {
            if la[0].size.height != 30.0 {
                out.impl_violation(format!("sig:c05-hidden-visible fixed witness: grid height {} instead of 30 (hidden child's grid-row enlarges the implicit grid)", la[0].size.height));
            }
        }
        c05_tree(out, &a, d200);
    }
    idx += 1;
    // fixed: a display:none ROOT (outside the quantifier) — recorded as a note
    if cfg.wants(idx) {
        out.begin_case(idx, "fixed:hidden-root-note");
        let mut s = Style::DEFAULT;
        s.display = Display::None;
        s.size = Size { width: Dimension::length(50.0), height: Dimension::length(40.0) };
        s.padding = Rect { left: LengthPercentage::length(1.0), right: LengthPercentage::length(2.0), top: LengthPercentage::length(3.0), bottom: LengthPercentage::length(4.0) };
        s.border = Rect { left: LengthPercentage::length(0.5), right: LengthPercentage::length(0.5), top: LengthPercentage::length(0.25), bottom: LengthPercentage::length(0.25) };
        s.margin = Rect { left: LengthPercentageAuto::length(5.0), right: LengthPercentageAuto::length(6.0), top: LengthPercentageAuto::length(7.0), bottom: LengthPercentageAuto::length(8.0) };
        let a = TreeDesc { style: s, ctx: None, children: vec![TreeDesc { style: Style::DEFAULT, ctx: Some(Ctx::Fixed(9.0, 9.0)), children: vec![] }] };
        match lay(&a, d200) {
            Ok(la) => {
                let l = &la[0];
                out.notes.push(format!(
                    "display:none ROOT (outside C05's quantifier) with size 50x40, padding 1/2/3/4, border .5/.5/.25/.25, margin 5/6/7/8: compute_root_layout gives it location ({},{}) size {}x{} content {}x{} padding l{} r{} t{} b{} border l{} r{} t{} b{} margin l{} r{} t{} b{}; its child gets {}",
                    l.location.x, l.location.y, l.size.width, l.size.height, l.content_size.width, l.content_size.height,
                    l.padding.left, l.padding.right, l.padding.top, l.padding.bottom,
                    l.border.left, l.border.right, l.border.top, l.border.bottom,
                    l.margin.left, l.margin.right, l.margin.top, l.margin.bottom,
                    if all_zero(&la[1]) { "an all-zero layout".to_string() } else { format!("a NON-ZERO layout {}", layout_line(&la[1])) }
                ));
                out.count(if all_zero(l) { "hidden-root:all-zero" } else { "hidden-root:style-padding-border-margin-written" });
                out.qa(&format!("note C05 hidden-root | {} | {}", a.line(), layouts_str(&la)), "ok");
            }
            Err(m) => {
                out.notes.push(format!("display:none ROOT: layout panicked: {m}"));
                out.qa("note C05 hidden-root-panicked", "ok");
            }
        }
    }
    idx += 1;
    let n = cfg.n(5000, 80_000);
    let gc = pairs_cfg();
    for i in 0..n {
        let ci = idx + i;
        if !cfg.wants(ci) {
            continue;
        }
        let mut r = Rng::for_case(cfg.seed, ci);
        out.begin_case(ci, "hidden-replaced");
        let mut a = gen_tree_min(&mut r, &gc, 2);
        c05_bias(&mut r, &mut a);
        let avail = gen_available(&mut r);
        c05_tree(out, &a, avail);
    }
    // toggle stream: lay the tree out with every node visible, hide one to three nodes through set_style, lay out again:
    // clause (i) (all-zero layouts at and below display:none) on the layouts the long-lived tree now reports
    let base = idx + n;
    let nt = cfg.n(2500, 40_000);
    for i in 0..nt {
        let ci = base + i;
        if !cfg.wants(ci) {
            continue;
        }
        let mut r = Rng::for_case(cfg.seed, ci);
        out.begin_case(ci, "hidden-after-toggle");
        let mut a = gen_tree_min(&mut r, &gc, 3);
        fn unhide(t: &mut TreeDesc, r: &mut Rng) {
            if t.style.display == Display::None {
                t.style.display = *r.pick(&[Display::Block, Display::Flex, Display::Grid]);
            }
            for c in &mut t.children {
                unhide(c, r);
            }
        }
        unhide(&mut a, &mut r);
        let avail = gen_available(&mut r);
        let k = 1 + r.below(3);
        let picks = pick_nonroot(&mut r, a.count(), k);
        let mut a2 = a.clone();
        for &h in &picks {
            node_at_mut(&mut a2, h).style.display = Display::None;
        }
        let res = layout_fresh(&a, avail, false).and_then(|(mut t, root)| {
            catch(move || {
                let mut ids = vec![];
                preorder_ids(&t, root, &mut ids);
                let mut nodes = vec![];
                a2.preorder(&mut nodes);
                for &h in &picks {
                    t.set_style(ids[h], nodes[h].style.clone()).unwrap();
                }
                t.compute_layout_with_measure(root, avail, |k, a, _id, ctx, _style| measure(k, a, ctx)).unwrap();
                (a2, all_layouts(&t, root, true))
            })
        });
        match res {
            Ok((a2, l2)) => {
                let hid = hidden_flags(&a2);
                count_tree(out, &a2);
                out.count(&format!("toggled-nodes:{k}"));
                let mut nodes = vec![];
                a2.preorder(&mut nodes);
                let info = flatten(&a2);
                for h in (1..nodes.len()).filter(|&i| nodes[i].style.display == Display::None) {
                    out.count(&format!("toggled-parent:{}", display_key(nodes[info[h].parent.unwrap()].style.display)));
                    if info[h].size > 1 {
                        out.nontrivial();
                    }
                }
                let ans = c05_judge(&hid, &l2, &l2, None);
                if ans != "ok" {
                    out.impl_violation(format!(
                        "sig:c05-hidden-not-zero-after-toggle {ans}; laid out visible, then set_style(display:none) on the hidden nodes, laid out again; avail {} ; tree (after the toggle) = {}",
                        avs(avail),
                        a2.line()
                    ));
                }
                obs(out, "C05", &format!("{} - 0", avs(avail)), &a2, &a2, &l2, &l2, &ans);
            }
            Err(m) => {
                out.count("toggle:panic");
                let _ = m;
                out.qa("panic C05 both", "ok");
            }
        }
    }
    // move stream: a tree with ONE display:none node H (below visible containers only) is laid out; a visible, laid-out subtree M outside
    // H is detached with remove_child and attached directly below H (add_child / insert_child_at_index / set_children); laid out again:
    // clause (i) on the layouts the long-lived tree now reports — the moved subtree must come out all-zero
    // (seeded C05-6: add_child below a display:none parent no longer dirtied it, the moved subtree kept its old layout).
    // H has no hidden ancestor and M goes directly below H: below a *descendant* of H, mark_dirty stops at that descendant's empty cache
    // (known finding c01-attach-under-clean-hidden, C01/C17), which is not what this stream asks about.
    let base2 = base + nt;
    let nm = cfg.n(1500, 30_000);
    for i in 0..nm {
        let ci = base2 + i;
        if !cfg.wants(ci) {
            continue;
        }
        let mut r = Rng::for_case(cfg.seed, ci);
        out.begin_case(ci, "moved-under-hidden");
        let mut a = gen_tree_min(&mut r, &gc, 4);
        fn unhide2(t: &mut TreeDesc, r: &mut Rng) {
            if t.style.display == Display::None {
                t.style.display = *r.pick(&[Display::Block, Display::Flex, Display::Grid]);
            }
            for c in &mut t.children {
                unhide2(c, r);
            }
        }
        unhide2(&mut a, &mut r);
        let avail = gen_available(&mut r);
        let info = flatten(&a);
        let n = info.len();
        // H and M: non-root, neither inside the other
        let mut pair = None;
        for _ in 0..20 {
            let h = 1 + r.below(n - 1);
            let m = 1 + r.below(n - 1);
            let inside = |x: usize, y: usize| x >= y && x < y + info[y].size;
            if h != m && !inside(h, m) && !inside(m, h) {
                pair = Some((h, m));
                break;
            }
        }
        let Some((h, m)) = pair else {
            out.count("move:no-pair");
            out.qa("panic C05 both", "ok");
            continue;
        };
        node_at_mut(&mut a, h).style.display = Display::None;
        let how = r.below(3);
        // the expected tree: M appended to (or made the first / the only child of) H
        fn take(t: &mut TreeDesc, target: usize, cur: &mut usize) -> Option<TreeDesc> {
            *cur += 1;
            let mut k = 0;
            while k < t.children.len() {
                if *cur == target {
                    return Some(t.children.remove(k));
                }
                if let Some(x) = take(&mut t.children[k], target, cur) {
                    return Some(x);
                }
                k += 1;
            }
            None
        }
        let mut a2 = a.clone();
        let sub = take(&mut a2, m, &mut 0).expect("subtree");
        let h2 = if m < h { h - info[m].size } else { h };
        {
            let hn = node_at_mut(&mut a2, h2);
            match how {
                0 => hn.children.push(sub),
                1 => hn.children.insert(0, sub),
                _ => hn.children = vec![sub],
            }
        }
        let mparent = info[m].parent.unwrap();
        let res = layout_fresh(&a, avail, false).and_then(|(mut t, root)| {
            catch(move || {
                let mut ids = vec![];
                preorder_ids(&t, root, &mut ids);
                t.remove_child(ids[mparent], ids[m]).unwrap();
                match how {
                    0 => {
                        t.add_child(ids[h], ids[m]).unwrap();
                    }
                    1 => {
                        t.insert_child_at_index(ids[h], 0, ids[m]).unwrap();
                    }
                    _ => {
                        t.set_children(ids[h], &[ids[m]]).unwrap();
                    }
                }
                t.compute_layout_with_measure(root, avail, |k, a, _id, ctx, _style| measure(k, a, ctx)).unwrap();
                all_layouts(&t, root, true)
            })
        });
        match res {
            Ok(l2) => {
                let hid = hidden_flags(&a2);
                count_tree(out, &a2);
                out.count(["move:add_child", "move:insert_child_at_index", "move:set_children"][how as usize]);
                out.count(&format!("moved-subtree-size:{}", info[m].size.min(4)));
                out.nontrivial();
                let ans = if hid.len() != l2.len() { "bad node-count".to_string() } else { c05_judge(&hid, &l2, &l2, None) };
                if ans != "ok" {
                    out.impl_violation(format!(
                        "sig:c05-hidden-not-zero-after-move {ans}; laid out, then node {m} (subtree of {}) detached with remove_child and attached directly below the display:none node {h} ({}), laid out again; avail {} ; tree (after the move) = {}",
                        info[m].size,
                        ["add_child", "insert_child_at_index", "set_children"][how as usize],
                        avs(avail),
                        a2.line()
                    ));
                }
                obs(out, "C05", &format!("{} - 0", avs(avail)), &a2, &a2, &l2, &l2, &ans);
            }
            Err(m) => {
                out.count("move:panic");
                let _ = m;
                out.qa("panic C05 both", "ok");
            }
        }
    }
    String::new()
}

// ---------------------------------------------------------------------------------------------------------
// C06 — absolutely positioned children influence nothing outside their subtree

fn bare_absolute() -> TreeDesc {
    let mut s = Style::DEFAULT;
    s.position = Position::Absolute;
    TreeDesc { style: s, ctx: None, children: vec![] }
}

fn c06_judge(la: &[Layout], lb: &[Layout], pick: Option<(usize, usize)>) -> String {
    let (idx, sz) = pick.unwrap_or((la.len(), 1));
    if lb.len() + sz != la.len() + 1 {
        return format!("bad c06-abs-visible {}", lb.len());
    }
    for j in 0..la.len() {
        if j >= idx && j < idx + sz {
            continue;
        }
        let jb = map_idx(j, idx, sz);
        // content_size and order may depend on the absolute child
        if !same_fields(&la[j], &lb[jb], true) {
            return format!("bad c06-abs-visible {j}");
        }
    }
    "ok".to_string()
}

/// some absolute node of `t` that is not covered by the known grid-lines finding violates the predicate
fn c06_fails_new(t: &TreeDesc, avail: Size<AvailableSpace>) -> bool {
    let info = flatten(t);
    let mut nodes = vec![];
    t.preorder(&mut nodes);
    let la = match lay(t, avail) {
        Ok(l) => l,
        Err(_) => return false,
    };
    (1..nodes.len())
        .filter(|&i| nodes[i].style.position == Position::Absolute && nodes[i].style.display != Display::None)
        .filter(|&i| {
            let s = &nodes[i].style;
            !(nodes[info[i].parent.unwrap()].style.display == Display::Grid && (!placement_is_auto(&s.grid_row) || !placement_is_auto(&s.grid_column)))
        })
        .any(|p| match lay(&replace_subtree(t, p, bare_absolute()), avail) {
            Ok(lb) => c06_judge(&la, &lb, Some((p, info[p].size))) != "ok",
            Err(_) => false,
        })
}

fn c06_tree(out: &mut Out, a: &TreeDesc, avail: Size<AvailableSpace>) {
    let info = flatten(a);
    let hid = hidden_flags(a);
    let mut nodes = vec![];
    a.preorder(&mut nodes);
    let picks: Vec<usize> =
        (1..nodes.len()).filter(|&i| nodes[i].style.position == Position::Absolute && nodes[i].style.display != Display::None).collect();
    let ra = lay(a, avail);
    count_tree(out, a);
    out.count(&format!("absolute-nodes:{}", bucket(picks.len())));
    if picks.is_empty() {
        if let Ok(la) = &ra {
            let ans = c06_judge(la, la, None);
            obs(out, "C06", &format!("{} - 0 0", avs(avail)), a, a, la, la, &ans);
        }
        return;
    }
    for &p in &picks {
        let sz = info[p].size;
        let b = replace_subtree(a, p, bare_absolute());
        let rb = lay(&b, avail);
        if report_panic(out, "C06", &ra, &rb, a, &b) {
            continue;
        }
        let (la, lb) = (ra.as_ref().unwrap(), rb.as_ref().unwrap());
        let parent = info[p].parent.unwrap();
        let ps = &nodes[parent].style;
        let s = &nodes[p].style;
        let lines = !placement_is_auto(&s.grid_row) || !placement_is_auto(&s.grid_column);
        let g = ps.display == Display::Grid && lines;
        out.count(&format!("picked-parent:{}", display_key(ps.display)));
        out.count(&format!("picked-subtree:{}", bucket(sz)));
        if g {
            out.count("picked-has-grid-lines-in-grid");
        }
        if hid[parent] {
            out.count("picked-below-hidden");
        }
        let changed = sz > 1 || nodes[p].ctx.is_some() || *s != bare_absolute().style;
        if changed && !hid[parent] {
            out.nontrivial();
        }
        let ans = c06_judge(la, lb, Some((p, sz)));
        if ans != "ok" {
            let desc = format!("picked absolute node {p} (subtree {sz}, parent {}): {ans}; avail {} ; tree A = {}", display_key(ps.display), avs(avail), a.line());
            if g {
                out.count("known:abs-grid-implicit-tracks");
                out.impl_violation(format!("sig:c06-abs-grid-implicit-tracks {desc}"));
            } else {
                out.impl_violation(format!("sig:c06-abs-visible {desc} ; {}", minimised(a, &|t: &TreeDesc| c06_fails_new(t, avail))));
            }
        }
        obs(out, "C06", &format!("{} {p} {sz} {}", avs(avail), g as u8), a, &b, la, lb, &ans);
        // second comparison: the absolute child REMOVED altogether (its mere presence must not matter either);
        // location, size, scrollbar, border, padding and margin of every other node must be identical
        let c = remove_subtree(a, p);
        let parent_children_after = node_count_children(&c, parent);
        if let Ok(lc) = lay(&c, avail) {
            let mut bad: Option<usize> = None;
            if lc.len() + sz == la.len() {
                for j in 0..la.len() {
                    if j >= p && j < p + sz {
                        continue;
                    }
                    let jc = if j < p { j } else { j - sz };
                    if !same_fields(&la[j], &lc[jc], true) {
                        bad = Some(j);
                        break;
                    }
                }
            } else {
                bad = Some(0);
            }
            // a container whose last child is removed becomes a leaf (other algorithm): outside the comparison
            let became_leaf = parent_children_after == 0;
            // the known grid finding also covers an absolute child with auto lines when it is the only box-generating
            // child: the size estimate still reserves an implicit track for it
            let inflow_siblings = nodes[parent]
                .children
                .iter()
                .filter(|c| c.style.display != Display::None && c.style.position != Position::Absolute)
                .count();
            let g = g || (ps.display == Display::Grid && inflow_siblings == 0);
            let verdict = match bad {
                Some(j) if !became_leaf => {
                    let desc = format!("removing absolute node {p} (subtree {sz}, parent {}) changes node {j}; avail {} ; tree A = {}", display_key(ps.display), avs(avail), a.line());
                    if g {
                        out.count("known:abs-grid-implicit-tracks");
                        out.impl_violation(format!("sig:c06-abs-grid-implicit-tracks {desc}"));
                        "ok".to_string()
                    } else {
                        out.impl_violation(format!("sig:c06-abs-presence-visible {desc}"));
                        format!("bad c06-abs-presence-visible {j}")
                    }
                }
                _ => "ok".to_string(),
            };
            out.count(if became_leaf { "removal:parent-became-leaf" } else { "removal:compared" });
            out.qa(&format!("note c06-removal {p} {sz}"), &verdict);
        }
    }
}

fn node_count_children(d: &TreeDesc, idx: usize) -> usize {
    let mut nodes = vec![];
    d.preorder(&mut nodes);
    nodes.get(idx).map(|n| n.children.len()).unwrap_or(0)
}

fn c06_bias(r: &mut Rng, d: &mut TreeDesc) {
    let n = d.count();
    let k = *r.pick(&[1usize, 1, 1, 2, 2, 3]);
    for i in pick_nonroot(r, n, k) {
        let t = node_at_mut(d, i);
        t.style.position = Position::Absolute;
        if t.style.display == Display::None {
            t.style.display = *r.pick(&[Display::Block, Display::Flex, Display::Grid]);
        }
        t.style.inset = Rect { left: gen_inset(r), right: gen_inset(r), top: gen_inset(r), bottom: gen_inset(r) };
        match r.below(4) {
            0 => {
                t.style.grid_row = gen_line_placement(r);
                t.style.grid_column = gen_line_placement(r);
            }
            1 => {
                t.style.grid_row = Line { start: GridPlacement::Auto, end: GridPlacement::Auto };
                t.style.grid_column = Line { start: GridPlacement::Auto, end: GridPlacement::Auto };
            }
            _ => {}
        }
        if r.chance(1, 3) {
            t.style.size = Size { width: Dimension::length(gen_len(r) * 4.0), height: Dimension::length(gen_len(r) * 4.0) };
        }
    }
}

/// block flow around a box that can be collapsed through: [before, middle[(abs) empty-ish in-flow children (abs)], after] with
/// vertical margins — an absolute child must not change whether `middle` is collapsed through
fn c06_collapse_shape(r: &mut Rng) -> TreeDesc {
    let blk = |r: &mut Rng, mt: f32, mb: f32, h: Option<f32>| {
        let mut s = Style::DEFAULT;
        s.display = Display::Block;
        s.margin.top = LengthPercentageAuto::length(mt);
        s.margin.bottom = LengthPercentageAuto::length(mb);
        if let Some(h) = h {
            s.size.height = Dimension::length(h);
        }
        let _ = r;
        s
    };
    let m = |r: &mut Rng| *r.pick(&[0.0f32, 5.0, 10.0, 20.0, -5.0]);
    let leaf = |s: Style| TreeDesc { style: s, ctx: None, children: vec![] };
    let mut absolute = Style::DEFAULT;
    absolute.position = Position::Absolute;
    absolute.size = Size { width: Dimension::length(10.0), height: Dimension::length(10.0) };
    let mut kids = vec![];
    let n_inflow = 1 + r.below(3);
    let abs_at = r.below(n_inflow + 1);
    for i in 0..=n_inflow {
        if i == abs_at {
            kids.push(leaf(absolute.clone()));
        }
        if i < n_inflow {
            let (mt, mb) = (m(r), m(r));
            let h = if r.chance(1, 4) { Some(0.0) } else { None };
            kids.push(leaf(blk(r, mt, mb, h)));
        }
    }
    let (a1, a2, a3, a4, a5, a6) = (m(r), m(r), m(r), m(r), m(r), m(r));
    let before = leaf(blk(r, a1, a2, Some(10.0)));
    let middle = TreeDesc { style: blk(r, a3, a4, None), ctx: None, children: kids };
    let after = leaf(blk(r, a5, a6, Some(10.0)));
    let mut root = Style::DEFAULT;
    root.display = Display::Block;
    root.size.width = Dimension::length(100.0);
    TreeDesc { style: root, ctx: None, children: vec![before, middle, after] }
}

pub fn run_c06(cfg: &Cfg, out: &mut Out) -> String {
    let mut idx = 0u64;
    let d200 = Size { width: AvailableSpace::Definite(200.0), height: AvailableSpace::Definite(200.0) };
    // fixed: §9 item 10 — abs child with grid-row: 5 in an auto-rows-30 grid: the witness of the finding
    // c06-abs-grid-implicit-tracks (container 150 high). Since the repair (absolutely positioned children are not part of
    // the grid size estimate; a line of theirs outside the implicit grid is auto) the container stays 30 high.
    if cfg.wants(idx) {
        out.begin_case(idx, "fixed:abs-grid-child-with-grid-row-5");
        let mut g = Style::DEFAULT;
        g.display = Display::Grid;
        g.size.width = Dimension::length(100.0);
        g.grid_auto_rows = vec![length(30.0)];
        let mut vis = Style::DEFAULT;
        vis.size = Size { width: Dimension::length(10.0), height: Dimension::length(10.0) };
        let mut ab = Style::DEFAULT;
        ab.position = Position::Absolute;
        ab.grid_row = Line { start: GridPlacement::from_line_index(5), end: GridPlacement::Auto };
        let a = TreeDesc {
            style: g,
            ctx: None,
            children: vec![TreeDesc { style: vis, ctx: None, children: vec![] }, TreeDesc { style: ab, ctx: Some(Ctx::Fixed(20.0, 20.0)), children: vec![] }],
        };
        c06_tree(out, &a, d200);
        // the witness' own numbers: container 100 x 30, the in-flow child at (0, 0)
        match lay(&a, d200) {
            Ok(la) => {
                let ok = la[0].size.width == 100.0 && la[0].size.height == 30.0 && la[1].location.x == 0.0 && la[1].location.y == 0.0;
                if !ok {
                    out.impl_violation(format!(
                        "sig:c06-abs-grid-implicit-tracks fixed witness: container {}x{} (expected 100x30), in-flow child at ({}, {}); tree A = {}",
                        la[0].size.width,
                        la[0].size.height,
                        la[1].location.x,
                        la[1].location.y,
                        a.line()
                    ));
                }
                out.qa("note c06-witness-container-height", if ok { "ok" } else { "bad c06-abs-visible 0" });
            }
            Err(_) => {
                out.impl_violation(format!("sig:c06-abs-visible fixed witness panics; tree A = {}", a.line()));
                out.qa("note c06-witness-container-height", "bad c06-abs-visible 0");
            }
        }
    }
    idx += 1;
    // fixed: abs child with lines far outside the grid in both axes (negative line, line beyond the explicit grid, span) in a
    // grid with explicit columns, gaps and two in-flow children; a second abs child whose lines exist
    if cfg.wants(idx) {
        out.begin_case(idx, "fixed:abs-grid-child-with-lines-outside-the-grid");
        let mut g = Style::DEFAULT;
        g.display = Display::Grid;
        g.size.width = Dimension::length(120.0);
        g.gap = Size { width: LengthPercentage::length(4.0), height: LengthPercentage::length(4.0) };
        g.grid_template_columns = vec![length(40.0), auto()];
        g.grid_auto_rows = vec![length(30.0)];
        let mut vis = Style::DEFAULT;
        vis.size = Size { width: Dimension::length(10.0), height: Dimension::length(10.0) };
        let mut ab = Style::DEFAULT;
        ab.position = Position::Absolute;
        ab.size.width = Dimension::length(50.0);
        ab.grid_row = Line { start: GridPlacement::from_line_index(5), end: GridPlacement::from_span(3) };
        ab.grid_column = Line { start: GridPlacement::from_line_index(-7), end: GridPlacement::from_line_index(9) };
        let mut ab2 = Style::DEFAULT;
        ab2.position = Position::Absolute;
        ab2.grid_row = Line { start: GridPlacement::from_line_index(1), end: GridPlacement::from_line_index(2) };
        ab2.grid_column = Line { start: GridPlacement::from_line_index(2), end: GridPlacement::from_line_index(-1) };
        let leaf = |s: Style, c| TreeDesc { style: s, ctx: c, children: vec![] };
        let a = TreeDesc {
            style: g,
            ctx: None,
            children: vec![
                leaf(vis.clone(), None),
                TreeDesc { style: ab, ctx: None, children: vec![leaf(Style::DEFAULT, Some(Ctx::Fixed(5.0, 5.0)))] },
                leaf(vis, Some(Ctx::Wrap(40.0, 8.0))),
                leaf(ab2, Some(Ctx::Fixed(20.0, 20.0))),
            ],
        };
        c06_tree(out, &a, d200);
    }
    idx += 1;
    // fixed: block and flex containers with a big absolute child: nothing outside may move
    if cfg.wants(idx) {
        out.begin_case(idx, "fixed:abs-in-block-and-flex");
        let mut ab = Style::DEFAULT;
        ab.position = Position::Absolute;
        ab.size = Size { width: Dimension::length(500.0), height: Dimension::length(400.0) };
        ab.inset.left = LengthPercentageAuto::length(-20.0);
        ab.margin.top = LengthPercentageAuto::length(33.0);
        let leaf = |c| TreeDesc { style: Style::DEFAULT, ctx: Some(c), children: vec![] };
        let abs = TreeDesc { style: ab, ctx: None, children: vec![leaf(Ctx::Fixed(3.0, 3.0))] };
        let mut blk = Style::DEFAULT;
        blk.display = Display::Block;
        let mut col = Style::DEFAULT;
        col.flex_direction = FlexDirection::Column;
        let a = TreeDesc {
            style: col,
            ctx: None,
            children: vec![
                TreeDesc { style: blk, ctx: None, children: vec![leaf(Ctx::Fixed(10.0, 5.0)), abs.clone(), leaf(Ctx::Wrap(40.0, 5.0))] },
                abs,
                leaf(Ctx::Fixed(7.0, 7.0)),
            ],
        };
        c06_tree(out, &a, d200);
    }
    idx += 1;
    let n = cfg.n(5000, 80_000);
    let gc = pairs_cfg();
    for i in 0..n {
        let ci = idx + i;
        if !cfg.wants(ci) {
            continue;
        }
        let mut r = Rng::for_case(cfg.seed, ci);
        out.begin_case(ci, "absolute-neutralised");
        let mut a = if r.chance(1, 5) { c06_collapse_shape(&mut r) } else { gen_tree_min(&mut r, &gc, 2) };
        c06_bias(&mut r, &mut a);
        let avail = gen_available(&mut r);
        c06_tree(out, &a, avail);
    }
    // toggle stream: lay out with every node in flow, make one node absolutely positioned through set_style, lay out
    // again. Nothing outside its subtree may differ from the layout of the tree without the node — unless the same
    // difference shows on a freshly built tree with the node absolute (then it is the fresh-tree stream's subject).
    // Exact cache keys + quiet hits, so that the known history effects of the lossy key (C01) do not enter.
    let base = idx + n;
    let nt = cfg.n(2500, 40_000);
    for i in 0..nt {
        let ci = base + i;
        if !cfg.wants(ci) {
            continue;
        }
        let mut r = Rng::for_case(cfg.seed, ci);
        out.begin_case(ci, "absolute-after-toggle");
        let mut a = gen_tree_min(&mut r, &gc, 3);
        fn inflow(t: &mut TreeDesc, r: &mut Rng) {
            t.style.position = Position::Relative;
            if t.style.display == Display::None {
                t.style.display = *r.pick(&[Display::Block, Display::Flex, Display::Grid]);
            }
            for c in &mut t.children {
                inflow(c, r);
            }
        }
        inflow(&mut a, &mut r);
        let avail = gen_available(&mut r);
        // prefer a node with siblings (a parent left without children becomes a leaf: outside the comparison)
        let p = {
            let inf = flatten(&a);
            let mut nodes = vec![];
            a.preorder(&mut nodes);
            let with_siblings: Vec<usize> = (1..inf.len()).filter(|&j| nodes[inf[j].parent.unwrap()].children.len() >= 2).collect();
            if with_siblings.is_empty() { pick_nonroot(&mut r, a.count(), 1)[0] } else { *r.pick(&with_siblings) }
        };
        let mut a2 = a.clone();
        {
            let t = node_at_mut(&mut a2, p);
            t.style.position = Position::Absolute;
            t.style.inset = Rect { left: gen_inset(&mut r), right: gen_inset(&mut r), top: gen_inset(&mut r), bottom: gen_inset(&mut r) };
        }
        let info = flatten(&a2);
        let sz = info[p].size;
        let parent = info[p].parent.unwrap();
        let mut nodes = vec![];
        a2.preorder(&mut nodes);
        let _g = crate::hist::ModeGuard::set(crate::hist::Mode::Quiet);
        let new_style = nodes[p].style.clone();
        let live = layout_fresh(&a, avail, false).and_then(|(mut t, root)| {
            catch(move || {
                let mut ids = vec![];
                preorder_ids(&t, root, &mut ids);
                t.set_style(ids[p], new_style).unwrap();
                t.compute_layout_with_measure(root, avail, |k, a, _id, ctx, _style| measure(k, a, ctx)).unwrap();
                all_layouts(&t, root, true)
            })
        });
        let c = remove_subtree(&a2, p);
        let removed = lay(&c, avail);
        let fresh = lay(&a2, avail);
        drop(_g);
        count_tree(out, &a2);
        out.count(&format!("toggled-parent:{}", display_key(nodes[parent].style.display)));
        match (live, removed, fresh) {
            (Ok(ll), Ok(lc), Ok(lf)) => {
                let outside = |j: usize| j < p || j >= p + sz;
                let differs_from = |other: &Vec<Layout>, shift: bool| -> Option<usize> {
                    (0..ll.len()).filter(|&j| outside(j)).find(|&j| {
                        let jo = if shift && j > p { j - sz } else { j };
                        other.get(jo).map_or(true, |o| !same_fields(&ll[j], o, true))
                    })
                };
                let became_leaf = node_count_children(&c, parent) == 0;
                let bad = if became_leaf { None } else { differs_from(&lc, true).filter(|_| differs_from(&lf, false).is_some()) };
                out.nontrivial();
                out.count(if became_leaf { "toggle:parent-became-leaf" } else { "toggle:compared" });
                if differs_from(&lc, true).is_some() && bad.is_none() && !became_leaf {
                    out.count("toggle:differs-as-on-a-fresh-tree");
                }
                let verdict = match bad {
                    Some(j) => {
                        out.impl_violation(format!(
                            "sig:c06-abs-after-toggle-visible node {p} (subtree {sz}, parent {}) was laid out in flow, made absolute through set_style and laid out again: node {j} outside its subtree differs both from the tree without the node and from a fresh tree with the node absolute; avail {} ; tree (after the toggle) = {}",
                            display_key(nodes[parent].style.display),
                            avs(avail),
                            a2.line()
                        ));
                        format!("bad c06-abs-after-toggle-visible {j}")
                    }
                    None => "ok".to_string(),
                };
                out.qa(&format!("note c06-toggle {p} {sz}"), &verdict);
            }
            _ => {
                out.count("toggle:panic");
                out.qa("panic C06 both", "ok");
            }
        }
    }
    String::new()
}

// ---------------------------------------------------------------------------------------------------------
// C12 — content-box and border-box sizing are interchangeable

fn lp_len(x: LengthPercentage) -> Option<f32> {
    let c = x.into_raw();
    if c.tag() == CompactLength::LENGTH_TAG {
        Some(c.value())
    } else {
        None
    }
}
fn dim_ok(x: Dimension) -> bool {
    let t = x.into_raw().tag();
    t == CompactLength::LENGTH_TAG || t == CompactLength::AUTO_TAG
}
fn c12_eligible(s: &Style) -> bool {
    s.box_sizing == BoxSizing::ContentBox
        && s.aspect_ratio.is_none()
        && [s.padding.left, s.padding.right, s.padding.top, s.padding.bottom, s.border.left, s.border.right, s.border.top, s.border.bottom]
            .iter()
            .all(|x| lp_len(*x).is_some())
        && [s.size.width, s.size.height, s.min_size.width, s.min_size.height, s.max_size.width, s.max_size.height, s.flex_basis]
            .iter()
            .all(|x| dim_ok(*x))
}
fn dim_add(x: Dimension, d: f32) -> Dimension {
    let c = x.into_raw();
    if c.tag() == CompactLength::LENGTH_TAG {
        Dimension::length(c.value() + d)
    } else {
        x
    }
}
/// padding+border sums (horizontal, vertical) of an eligible node
fn pb_sums(s: &Style) -> (f32, f32) {
    let v = |x: LengthPercentage| lp_len(x).unwrap();
    (v(s.padding.left) + v(s.padding.right) + v(s.border.left) + v(s.border.right), v(s.padding.top) + v(s.padding.bottom) + v(s.border.top) + v(s.border.bottom))
}
/// the rewrite of the property statement. flex_basis uses the parent flex container's main axis; when the parent is not a
/// flex container (or there is none) flex_basis is never read and is increased by the horizontal sum.
fn to_border_box(s: &Style, parent_main_is_row: bool) -> Style {
    let (h, v) = pb_sums(s);
    let mut t = s.clone();
    t.box_sizing = BoxSizing::BorderBox;
    t.size = Size { width: dim_add(s.size.width, h), height: dim_add(s.size.height, v) };
    t.min_size = Size { width: dim_add(s.min_size.width, h), height: dim_add(s.min_size.height, v) };
    t.max_size = Size { width: dim_add(s.max_size.width, h), height: dim_add(s.max_size.height, v) };
    t.flex_basis = dim_add(s.flex_basis, if parent_main_is_row { h } else { v });
    t
}
fn has_len(s: &Style) -> bool {
    [s.size.width, s.size.height, s.min_size.width, s.min_size.height, s.max_size.width, s.max_size.height, s.flex_basis]
        .iter()
        .any(|x| x.into_raw().tag() == CompactLength::LENGTH_TAG)
}

fn c12_bias(r: &mut Rng, d: &mut TreeDesc) {
    let q = |r: &mut Rng| LengthPercentage::length(if r.chance(1, 4) { 0.0 } else { r.range(1, 48) as f32 * 0.25 });
    let fix = |r: &mut Rng, x: Dimension| -> Dimension {
        if x.into_raw().tag() == CompactLength::PERCENT_TAG {
            if r.chance(1, 2) {
                Dimension::length(gen_len(r))
            } else {
                Dimension::auto()
            }
        } else {
            x
        }
    };
    d.map_styles(&mut |s, _| {
        // compressible replaced elements have their own size-cap site in the grid algorithm (grid_item.rs)
        if r.chance(1, 6) {
            s.item_is_replaced = true;
        }
        if r.chance(1, 2) {
            s.box_sizing = BoxSizing::ContentBox;
            s.aspect_ratio = None;
            if r.chance(3, 4) {
                s.padding = Rect { left: q(r), right: q(r), top: q(r), bottom: q(r) };
            } else {
                s.padding = Rect { left: LengthPercentage::length(0.0), right: LengthPercentage::length(0.0), top: LengthPercentage::length(0.0), bottom: LengthPercentage::length(0.0) };
            }
            if r.chance(1, 2) {
                s.border = Rect { left: q(r), right: q(r), top: q(r), bottom: q(r) };
            } else {
                s.border = Rect { left: LengthPercentage::length(0.0), right: LengthPercentage::length(0.0), top: LengthPercentage::length(0.0), bottom: LengthPercentage::length(0.0) };
            }
            s.size = Size { width: fix(r, s.size.width), height: fix(r, s.size.height) };
            s.min_size = Size { width: fix(r, s.min_size.width), height: fix(r, s.min_size.height) };
            s.max_size = Size { width: fix(r, s.max_size.width), height: fix(r, s.max_size.height) };
            s.flex_basis = fix(r, s.flex_basis);
            // more definite lengths to rewrite
            if r.chance(1, 3) {
                s.size.width = Dimension::length(gen_len(r));
            }
            if r.chance(1, 3) {
                s.size.height = Dimension::length(gen_len(r));
            }
            if r.chance(1, 5) {
                s.min_size.width = Dimension::length(gen_len(r) * 0.5);
            }
            if r.chance(1, 5) {
                s.max_size.height = Dimension::length(gen_len(r));
            }
            if r.chance(1, 4) {
                s.flex_basis = Dimension::length(gen_len(r));
            }
        }
    });
}

fn c12_switch(a: &TreeDesc, switched: &[usize]) -> TreeDesc {
    let info = flatten(a);
    let mut nodes = vec![];
    a.preorder(&mut nodes);
    let mut b = a.clone();
    for &i in switched {
        let main_row = match info[i].parent {
            Some(p) if nodes[p].style.display == Display::Flex => matches!(nodes[p].style.flex_direction, FlexDirection::Row | FlexDirection::RowReverse),
            _ => true,
        };
        node_at_mut(&mut b, i).style = to_border_box(&nodes[i].style, main_row);
    }
    b
}
fn c12_differs(la: &[Layout], lb: &[Layout]) -> Option<usize> {
    if la.len() != lb.len() {
        return Some(la.len().min(lb.len()));
    }
    (0..la.len()).find(|&i| la[i].order != lb[i].order || !same_fields(&la[i], &lb[i], false))
}
/// switching all eligible nodes, or one of them alone, changes a layout (shrinking predicate)
fn c12_fails(t: &TreeDesc, avail: Size<AvailableSpace>) -> bool {
    let mut nodes = vec![];
    t.preorder(&mut nodes);
    let elig: Vec<usize> = (0..nodes.len()).filter(|&i| c12_eligible(&nodes[i].style)).collect();
    let la = match lay(t, avail) {
        Ok(l) => l,
        Err(_) => return false,
    };
    let mut sets: Vec<Vec<usize>> = vec![elig.clone()];
    sets.extend(elig.iter().map(|&i| vec![i]));
    sets.iter().any(|sw| match lay(&c12_switch(t, sw), avail) {
        Ok(lb) => c12_differs(&la, &lb).is_some(),
        Err(_) => false,
    })
}

fn c12_one(out: &mut Out, a: &TreeDesc, avail: Size<AvailableSpace>, switched: &[usize]) {
    let info = flatten(a);
    let mut nodes = vec![];
    a.preorder(&mut nodes);
    let mut b = a.clone();
    let mut effective = false;
    for &i in switched {
        let main_row = match info[i].parent {
            Some(p) if nodes[p].style.display == Display::Flex => {
                out.count("switched-parent:flex");
                matches!(nodes[p].style.flex_direction, FlexDirection::Row | FlexDirection::RowReverse)
            }
            Some(p) => {
                out.count(&format!("switched-parent:{}", display_key(nodes[p].style.display)));
                true
            }
            None => {
                out.count("switched-root");
                true
            }
        };
        let s = &nodes[i].style;
        let (h, v) = pb_sums(s);
        if (h != 0.0 || v != 0.0) && has_len(s) {
            effective = true;
            out.count("switched:with-lengths-and-padding-border");
        } else {
            out.count("switched:vacuous");
        }
        if s.position == Position::Absolute {
            out.count("switched:absolute");
        }
        if nodes[i].children.is_empty() {
            out.count("switched:leaf");
        } else {
            out.count(&format!("switched:{}-container", display_key(s.display)));
        }
        node_at_mut(&mut b, i).style = to_border_box(s, main_row);
    }
    let (ra, rb) = (lay(a, avail), lay(&b, avail));
    count_tree(out, a);
    out.count(&format!("switched-nodes:{}", bucket(switched.len())));
    out.count(&format!("content-box-nodes:{}", bucket(nodes.iter().filter(|n| n.style.box_sizing == BoxSizing::ContentBox).count())));
    if report_panic(out, "C12", &ra, &rb, a, &b) {
        return;
    }
    let (la, lb) = (ra.unwrap(), rb.unwrap());
    if effective && la.iter().any(|l| !all_zero(l)) {
        out.nontrivial();
    }
    let mut ans = "ok".to_string();
    if la.len() != lb.len() {
        ans = format!("bad c12-box-sizing-differs {}", la.len().min(lb.len()));
    } else {
        for i in 0..la.len() {
            if la[i].order != lb[i].order || !same_fields(&la[i], &lb[i], false) {
                ans = format!("bad c12-box-sizing-differs {i}");
                break;
            }
        }
    }
    if ans != "ok" {
        let i: usize = ans.rsplit(' ').next().unwrap().parse().unwrap();
        out.impl_violation(format!(
            "sig:c12-box-sizing-differs node {i}: content-box {} vs border-box {} ; switched {:?} ; avail {} ; tree A = {} ; {}",
            layout_line(&la[i.min(la.len() - 1)]),
            layout_line(&lb[i.min(lb.len() - 1)]),
            switched,
            avs(avail),
            a.line(),
            minimised(a, &|t: &TreeDesc| c12_fails(t, avail))
        ));
    }
    let mut params = format!("{} {}", avs(avail), switched.len());
    for i in switched {
        params.push_str(&format!(" {i}"));
    }
    obs(out, "C12", &params, a, &b, &la, &lb, &ans);
}

pub fn run_c12(cfg: &Cfg, out: &mut Out) -> String {
    let mut idx = 0u64;
    let d200 = Size { width: AvailableSpace::Definite(200.0), height: AvailableSpace::Definite(200.0) };
    // fixed: content-box items with every rewritten property set, in a row flex, a column flex, a block and a grid container
    if cfg.wants(idx) {
        out.begin_case(idx, "fixed:content-box-items-in-every-container");
        let mut it = Style::DEFAULT;
        it.box_sizing = BoxSizing::ContentBox;
        it.size = Size { width: Dimension::length(50.0), height: Dimension::length(20.0) };
        it.min_size = Size { width: Dimension::length(10.0), height: Dimension::length(30.0) };
        it.max_size = Size { width: Dimension::length(45.0), height: Dimension::auto() };
        it.flex_basis = Dimension::length(30.0);
        it.padding = Rect { left: LengthPercentage::length(5.0), right: LengthPercentage::length(1.0), top: LengthPercentage::length(2.0), bottom: LengthPercentage::length(0.5) };
        it.border = Rect { left: LengthPercentage::length(2.0), right: LengthPercentage::length(2.0), top: LengthPercentage::length(0.25), bottom: LengthPercentage::length(1.0) };
        let item = |c: Option<Ctx>| TreeDesc { style: it.clone(), ctx: c, children: vec![] };
        let mut abs = it.clone();
        abs.position = Position::Absolute;
        abs.inset.left = LengthPercentageAuto::length(3.0);
        abs.inset.right = LengthPercentageAuto::length(4.0);
        let absn = TreeDesc { style: abs, ctx: None, children: vec![] };
        let cont = |d: Display, dir: FlexDirection| {
            let mut s = it.clone();
            s.display = d;
            s.flex_direction = dir;
            s.size = Size { width: Dimension::length(120.0), height: Dimension::auto() };
            s.max_size = Size { width: Dimension::auto(), height: Dimension::auto() };
            s.min_size = Size { width: Dimension::auto(), height: Dimension::length(5.0) };
            TreeDesc { style: s, ctx: None, children: vec![item(Some(Ctx::Fixed(8.0, 8.0))), item(None), absn.clone()] }
        };
        let mut root = Style::DEFAULT;
        root.display = Display::Block;
        root.box_sizing = BoxSizing::ContentBox;
        root.padding.left = LengthPercentage::length(4.0);
        root.size.width = Dimension::length(150.0);
        let a = TreeDesc {
            style: root,
            ctx: None,
            children: vec![cont(Display::Flex, FlexDirection::Row), cont(Display::Flex, FlexDirection::Column), cont(Display::Block, FlexDirection::Row), cont(Display::Grid, FlexDirection::Row)],
        };
        let all: Vec<usize> = (0..a.count()).collect();
        c12_one(out, &a, d200, &all);
    }
    idx += 1;
    // fixed: the witness of the repaired defect — a compressible replaced grid item with a content-box max-width
    if cfg.wants(idx) {
        out.begin_case(idx, "fixed:replaced-grid-item-content-box-max-width");
        let mut g = Style::DEFAULT;
        g.display = Display::Grid;
        g.size.width = Dimension::length(100.0);
        g.grid_template_columns = vec![auto()];
        let mut it = Style::DEFAULT;
        it.item_is_replaced = true;
        it.box_sizing = BoxSizing::ContentBox;
        it.padding.left = LengthPercentage::length(5.0);
        it.padding.right = LengthPercentage::length(5.0);
        it.border.left = LengthPercentage::length(1.0);
        it.border.right = LengthPercentage::length(1.0);
        it.max_size.width = Dimension::length(100.0);
        let a = TreeDesc { style: g, ctx: None, children: vec![TreeDesc { style: it, ctx: Some(Ctx::Fixed(200.0, 10.0)), children: vec![] }] };
        c12_one(out, &a, Size { width: AvailableSpace::Definite(100.0), height: AvailableSpace::MaxContent }, &[1]);
    }
    idx += 1;
    let n = cfg.n(8000, 120_000);
    let mut gc = pairs_cfg();
    gc.allow_aspect = true;
    for i in 0..n {
        let ci = idx + i;
        if !cfg.wants(ci) {
            continue;
        }
        let mut r = Rng::for_case(cfg.seed, ci);
        out.begin_case(ci, "box-sizing-switched");
        let min_nodes = if r.chance(1, 12) { 1 } else { 2 };
        let mut a = gen_tree_min(&mut r, &gc, min_nodes);
        c12_bias(&mut r, &mut a);
        let avail = gen_available(&mut r);
        let mut nodes = vec![];
        a.preorder(&mut nodes);
        let elig: Vec<usize> = (0..nodes.len()).filter(|&i| c12_eligible(&nodes[i].style)).collect();
        let all = r.chance(1, 3);
        let switched: Vec<usize> = elig.iter().copied().filter(|_| all || r.chance(1, 2)).collect();
        drop(nodes);
        c12_one(out, &a, avail, &switched);
    }
    String::new()
}

// ---------------------------------------------------------------------------------------------------------
// greedy shrinking of a failing tree (used only to describe a NEW violation; never for known findings)

macro_rules! field_resets {
    ($($($f:ident).+),* $(,)?) => {
        vec![$( (stringify!($($f).+), Box::new(|s: &mut Style| s.$($f).+ = Style::DEFAULT.$($f).+.clone()) as Box<dyn Fn(&mut Style)>) ),*]
    };
}
fn style_resets() -> Vec<(&'static str, Box<dyn Fn(&mut Style)>)> {
    field_resets!(
        display, item_is_table, item_is_replaced, box_sizing, overflow.x, overflow.y, scrollbar_width, position,
        inset.left, inset.right, inset.top, inset.bottom, size.width, size.height, min_size.width, min_size.height,
        max_size.width, max_size.height, aspect_ratio, margin.left, margin.right, margin.top, margin.bottom,
        padding.left, padding.right, padding.top, padding.bottom, border.left, border.right, border.top, border.bottom,
        align_items, align_self, justify_items, justify_self, align_content, justify_content, gap.width, gap.height,
        text_align, flex_direction, flex_wrap, flex_basis, flex_grow, flex_shrink, grid_template_rows,
        grid_template_columns, grid_auto_rows, grid_auto_columns, grid_auto_flow, grid_row, grid_column
    )
}
fn fmt_cl(c: CompactLength) -> String {
    match c.tag() {
        CompactLength::LENGTH_TAG => format!("{}px", c.value()),
        CompactLength::PERCENT_TAG => format!("{}%", c.value() * 100.0),
        CompactLength::AUTO_TAG => "auto".into(),
        CompactLength::FR_TAG => format!("{}fr", c.value()),
        CompactLength::MIN_CONTENT_TAG => "min-content".into(),
        CompactLength::MAX_CONTENT_TAG => "max-content".into(),
        CompactLength::FIT_CONTENT_PX_TAG => format!("fit-content({}px)", c.value()),
        CompactLength::FIT_CONTENT_PERCENT_TAG => format!("fit-content({}%)", c.value() * 100.0),
        t => format!("tag{t}"),
    }
}
fn fmt_nr(t: &NonRepeatedTrackSizingFunction) -> String {
    let (a, b) = (fmt_cl(t.min.into_raw()), fmt_cl(t.max.into_raw()));
    if a == b {
        a
    } else {
        format!("minmax({a}, {b})")
    }
}
fn fmt_tsf(t: &TrackSizingFunction) -> String {
    match t {
        TrackSizingFunction::Single(x) => fmt_nr(x),
        TrackSizingFunction::Repeat(r, v) => format!("repeat({:?}, {})", r, v.iter().map(fmt_nr).collect::<Vec<_>>().join(" ")),
    }
}
/// only the fields that differ from Style::DEFAULT, in CSS-like notation
pub fn describe_style(s: &Style) -> String {
    let d = Style::DEFAULT;
    let mut v: Vec<String> = vec![];
    macro_rules! dbg_f {
        ($($f:ident),*) => { $( if s.$f != d.$f { v.push(format!("{}: {:?}", stringify!($f), s.$f)); } )* };
    }
    macro_rules! len_f {
        ($($($f:ident).+),*) => { $( if s.$($f).+ != d.$($f).+ { v.push(format!("{}: {}", stringify!($($f).+), fmt_cl(s.$($f).+.into_raw()))); } )* };
    }
    dbg_f!(display, item_is_table, item_is_replaced, box_sizing, overflow, scrollbar_width, position);
    len_f!(inset.left, inset.right, inset.top, inset.bottom, size.width, size.height, min_size.width, min_size.height, max_size.width, max_size.height);
    dbg_f!(aspect_ratio);
    len_f!(
        margin.left, margin.right, margin.top, margin.bottom, padding.left, padding.right, padding.top, padding.bottom, border.left,
        border.right, border.top, border.bottom
    );
    dbg_f!(align_items, align_self, justify_items, justify_self, align_content, justify_content);
    len_f!(gap.width, gap.height);
    dbg_f!(text_align, flex_direction, flex_wrap);
    len_f!(flex_basis);
    dbg_f!(flex_grow, flex_shrink);
    if !s.grid_template_rows.is_empty() {
        v.push(format!("grid_template_rows: {}", s.grid_template_rows.iter().map(fmt_tsf).collect::<Vec<_>>().join(" ")));
    }
    if !s.grid_template_columns.is_empty() {
        v.push(format!("grid_template_columns: {}", s.grid_template_columns.iter().map(fmt_tsf).collect::<Vec<_>>().join(" ")));
    }
    if !s.grid_auto_rows.is_empty() {
        v.push(format!("grid_auto_rows: {}", s.grid_auto_rows.iter().map(fmt_nr).collect::<Vec<_>>().join(" ")));
    }
    if !s.grid_auto_columns.is_empty() {
        v.push(format!("grid_auto_columns: {}", s.grid_auto_columns.iter().map(fmt_nr).collect::<Vec<_>>().join(" ")));
    }
    dbg_f!(grid_auto_flow, grid_row, grid_column);
    v.join(", ")
}
/// nested: `{style; ctx; children…}`
pub fn describe_tree(d: &TreeDesc, _indent: usize, out: &mut String) {
    out.push_str(&format!("{{{}", describe_style(&d.style)));
    if let Some(c) = d.ctx {
        out.push_str(&format!("; measure {:?}", c));
    }
    for c in &d.children {
        out.push_str("; child ");
        describe_tree(c, 0, out);
    }
    out.push('}');
}
/// greedy: drop subtrees, hoist an only child, drop contexts, reset style fields — while `fails` keeps holding
pub fn shrink(mut t: TreeDesc, fails: &dyn Fn(&TreeDesc) -> bool) -> TreeDesc {
    let resets = style_resets();
    let mut budget = 4000usize;
    loop {
        let mut progress = false;
        // structural
        let mut i = 1;
        while i < t.count() && budget > 0 {
            // remove node i with its subtree
            let info = flatten(&t);
            let p = info[i].parent.unwrap();
            let mut cand = t.clone();
            {
                // position of i among p's children
                let mut k = 0;
                let mut j = p + 1;
                while j != i {
                    j += info[j].size;
                    k += 1;
                }
                node_at_mut(&mut cand, p).children.remove(k);
            }
            budget -= 1;
            if fails(&cand) {
                t = cand;
                progress = true;
                continue;
            }
            // replace node i by its children (splice)
            let mut cand = t.clone();
            {
                let mut k = 0;
                let mut j = p + 1;
                while j != i {
                    j += info[j].size;
                    k += 1;
                }
                let pn = node_at_mut(&mut cand, p);
                let me = pn.children.remove(k);
                if !me.children.is_empty() {
                    for (o, c) in me.children.into_iter().enumerate() {
                        pn.children.insert(k + o, c);
                    }
                    budget -= 1;
                    if fails(&cand) {
                        t = cand;
                        progress = true;
                        continue;
                    }
                }
            }
            i += 1;
        }
        // hoist: the root's only child becomes the root
        if t.children.len() == 1 {
            let cand = t.children[0].clone();
            if fails(&cand) {
                t = cand;
                progress = true;
            }
        }
        // contexts and style fields
        for i in 0..t.count() {
            if node_at(&t, i).ctx.is_some() && budget > 0 {
                let mut cand = t.clone();
                node_at_mut(&mut cand, i).ctx = None;
                budget -= 1;
                if fails(&cand) {
                    t = cand;
                    progress = true;
                }
            }
            for (_, f) in &resets {
                if budget == 0 {
                    break;
                }
                let mut cand = t.clone();
                f(&mut node_at_mut(&mut cand, i).style);
                if cand.style_eq(&t) {
                    continue;
                }
                budget -= 1;
                if fails(&cand) {
                    t = cand;
                    progress = true;
                }
            }
        }
        if !progress || budget == 0 {
            return t;
        }
    }
}
trait StyleEq {
    fn style_eq(&self, o: &Self) -> bool;
}
impl StyleEq for TreeDesc {
    fn style_eq(&self, o: &TreeDesc) -> bool {
        self.style == o.style && self.ctx == o.ctx && self.children.len() == o.children.len() && self.children.iter().zip(&o.children).all(|(a, b)| a.style_eq(b))
    }
}
thread_local! {
    static MINIMISED_SO_FAR: std::cell::Cell<u32> = const { std::cell::Cell::new(0) };
}
/// description of a greedily minimised failing tree (only for the first few new violations of a run)
fn minimised(t: &TreeDesc, fails: &dyn Fn(&TreeDesc) -> bool) -> String {
    let n = MINIMISED_SO_FAR.with(|c| c.replace(c.get() + 1));
    if n >= 3 {
        return String::from("(not minimised: earlier violations of this run were)");
    }
    if !fails(t) {
        return String::from("(not minimised: the shrinking predicate does not hold on the original tree)");
    }
    let m = shrink(t.clone(), fails);
    let mut s = String::new();
    describe_tree(&m, 0, &mut s);
    format!("MINIMISED ({} nodes): {s}", m.count())
}
