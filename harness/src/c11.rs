//! C11 — absolutely positioned boxes: a real tree (container + one absolutely positioned leaf, sometimes an in-flow
//! sibling) is laid out by taffy; the request carries both styles, the leaf's content, the available space and the
//! container's observed unrounded layout; the answer is the child's unrounded layout.
//! Implementation-side oracle: the C11 equations evaluated in f64 on the implementation's own answer (all generated
//! numbers are small dyadics, so f32 and f64 arithmetic on them is exact and the comparison is with equality).
use crate::common::*;
use crate::stylefmt::*;
use crate::treegen::*;
use taffy::prelude::*;
use taffy::style::Overflow;
use taffy::{BoxSizing, Point, TextAlign};

fn ctx_tok(c: &Option<Ctx>) -> String {
    match c {
        None => "-".into(),
        Some(Ctx::Fixed(w, h)) => format!("f:{}:{}", hx(*w), hx(*h)),
        Some(Ctx::Wrap(w, h)) => format!("w:{}:{}", hx(*w), hx(*h)),
    }
}

fn kind_of(d: Display) -> &'static str {
    match d {
        Display::Block => "block",
        Display::Flex => "flex",
        Display::Grid => "grid",
        Display::None => unreachable!(),
    }
}

struct Case {
    container: Style,
    child: Style,
    ctx: Option<Ctx>,
    /// in-flow sibling and whether it comes before the absolutely positioned child
    sibling: Option<(Style, Option<Ctx>, bool)>,
    avail: Size<AvailableSpace>,
}

fn len_pool(r: &mut Rng) -> f32 {
    match r.below(8) {
        0 => 0.0,
        1 => *r.pick(&[10.0, 20.0, 30.0, 50.0, 100.0, 200.0]),
        2 => r.range(0, 400) as f32 * 0.25,
        3 => r.range(0, 30) as f32,
        _ => r.range(0, 60) as f32 * 2.5,
    }
}

fn g_small_lp(r: &mut Rng, pct: bool) -> LengthPercentage {
    match r.below(8) {
        0 | 1 | 2 => LengthPercentage::length(0.0),
        3 if pct => LengthPercentage::percent(*r.pick(&[0.0, 0.0625, 0.125, 0.25])),
        _ => LengthPercentage::length(r.range(0, 48) as f32 * 0.25),
    }
}

fn g_inset(r: &mut Rng) -> LengthPercentageAuto {
    match r.below(10) {
        0..=3 => LengthPercentageAuto::auto(),
        4 => LengthPercentageAuto::length(0.0),
        5 => LengthPercentageAuto::percent(*r.pick(&[0.0, 0.125, 0.25, 0.5, -0.25, 1.0])),
        6 => LengthPercentageAuto::length(-(r.range(0, 80) as f32) * 0.25),
        _ => LengthPercentageAuto::length(r.range(0, 240) as f32 * 0.25),
    }
}

fn g_margin(r: &mut Rng) -> LengthPercentageAuto {
    match r.below(10) {
        0 | 1 => LengthPercentageAuto::auto(),
        2 | 3 => LengthPercentageAuto::length(0.0),
        4 => LengthPercentageAuto::percent(*r.pick(&[0.0, 0.125, 0.25, -0.125, 0.5])),
        5 => LengthPercentageAuto::length(-(r.range(0, 80) as f32) * 0.25),
        _ => LengthPercentageAuto::length(r.range(0, 160) as f32 * 0.25),
    }
}

fn g_dim(r: &mut Rng, auto_weight: usize) -> Dimension {
    let n = auto_weight + 6;
    let k = r.below(n);
    if k < auto_weight {
        Dimension::auto()
    } else if k == auto_weight {
        Dimension::percent(*r.pick(&[0.0, 0.125, 0.25, 0.5, 0.75, 1.0, 1.5]))
    } else {
        Dimension::length(len_pool(r))
    }
}

fn g_ai(r: &mut Rng) -> Option<AlignItems> {
    match r.below(12) {
        0..=4 => None,
        5 => Some(AlignItems::Start),
        6 => Some(AlignItems::End),
        7 => Some(AlignItems::FlexStart),
        8 => Some(AlignItems::FlexEnd),
        9 => Some(AlignItems::Center),
        10 => Some(AlignItems::Baseline),
        _ => Some(AlignItems::Stretch),
    }
}
fn g_ac(r: &mut Rng) -> Option<AlignContent> {
    match r.below(14) {
        0..=4 => None,
        5 => Some(AlignContent::Start),
        6 => Some(AlignContent::End),
        7 => Some(AlignContent::FlexStart),
        8 => Some(AlignContent::FlexEnd),
        9 => Some(AlignContent::Center),
        10 => Some(AlignContent::Stretch),
        11 => Some(AlignContent::SpaceBetween),
        12 => Some(AlignContent::SpaceEvenly),
        _ => Some(AlignContent::SpaceAround),
    }
}

fn gen_container(r: &mut Rng, display: Display) -> Style {
    let mut s = Style::DEFAULT;
    s.display = display;
    // definite size mostly
    s.size = match r.below(10) {
        0 => Size { width: Dimension::auto(), height: Dimension::length(len_pool(r)) },
        1 => Size { width: Dimension::length(len_pool(r)), height: Dimension::auto() },
        2 => Size { width: g_dim(r, 2), height: g_dim(r, 2) },
        _ => Size { width: Dimension::length(len_pool(r)), height: Dimension::length(len_pool(r)) },
    };
    if r.chance(1, 6) {
        s.min_size = Size { width: g_dim(r, 3), height: g_dim(r, 3) };
    }
    if r.chance(1, 6) {
        s.max_size = Size { width: g_dim(r, 3), height: g_dim(r, 3) };
    }
    if r.chance(1, 16) {
        s.aspect_ratio = Some(*r.pick(&[0.5, 1.0, 2.0]));
    }
    if r.chance(1, 5) {
        s.box_sizing = BoxSizing::ContentBox;
    }
    if r.chance(2, 3) {
        let pct = r.chance(1, 4);
        s.padding = Rect { left: g_small_lp(r, pct), right: g_small_lp(r, pct), top: g_small_lp(r, pct), bottom: g_small_lp(r, pct) };
    }
    if r.chance(2, 3) {
        let pct = r.chance(1, 8);
        s.border = Rect { left: g_small_lp(r, pct), right: g_small_lp(r, pct), top: g_small_lp(r, pct), bottom: g_small_lp(r, pct) };
    }
    let ov = |r: &mut Rng| match r.below(6) {
        0 | 1 => Overflow::Scroll,
        2 => Overflow::Hidden,
        3 => Overflow::Clip,
        _ => Overflow::Visible,
    };
    s.overflow = Point { x: ov(r), y: ov(r) };
    s.scrollbar_width = *r.pick(&[0.0, 4.0, 15.0, 7.5, 15.0]);
    if r.chance(1, 4) {
        s.margin = Rect { left: g_margin(r), right: g_margin(r), top: g_margin(r), bottom: g_margin(r) };
    }
    s.align_items = g_ai(r);
    s.justify_items = g_ai(r);
    s.align_content = g_ac(r);
    s.justify_content = g_ac(r);
    s.text_align = *r.pick(&[TextAlign::Auto, TextAlign::Auto, TextAlign::LegacyLeft, TextAlign::LegacyRight, TextAlign::LegacyCenter]);
    s.flex_direction = *r.pick(&[FlexDirection::Row, FlexDirection::Column, FlexDirection::RowReverse, FlexDirection::ColumnReverse]);
    s.flex_wrap = *r.pick(&[FlexWrap::NoWrap, FlexWrap::NoWrap, FlexWrap::Wrap, FlexWrap::WrapReverse]);
    if r.chance(1, 4) {
        s.gap = Size { width: g_small_lp(r, true), height: g_small_lp(r, true) };
    }
    s
}

fn gen_child(r: &mut Rng) -> (Style, Option<Ctx>) {
    let mut s = Style::DEFAULT;
    s.display = *r.pick(&[Display::Block, Display::Flex, Display::Grid]);
    s.position = Position::Absolute;
    // every set/auto combination of the four insets: the mask is drawn uniformly, then values
    let mask = r.below(16);
    let one = |r: &mut Rng, set: bool| {
        if !set {
            LengthPercentageAuto::auto()
        } else {
            loop {
                let v = g_inset(r);
                if !v.is_auto() {
                    break v;
                }
            }
        }
    };
    s.inset = Rect { left: one(r, mask & 1 != 0), right: one(r, mask & 2 != 0), top: one(r, mask & 4 != 0), bottom: one(r, mask & 8 != 0) };
    s.size = Size { width: g_dim(r, 5), height: g_dim(r, 5) };
    if r.chance(1, 3) {
        s.min_size = Size { width: g_dim(r, 3), height: g_dim(r, 3) };
    }
    if r.chance(1, 3) {
        s.max_size = Size { width: g_dim(r, 3), height: g_dim(r, 3) };
    }
    if r.chance(1, 8) {
        s.aspect_ratio = Some(*r.pick(&[0.5, 1.0, 2.0, 4.0]));
    }
    if r.chance(3, 4) {
        s.margin = Rect { left: g_margin(r), right: g_margin(r), top: g_margin(r), bottom: g_margin(r) };
    }
    if r.chance(1, 5) {
        s.box_sizing = BoxSizing::ContentBox;
    }
    if r.chance(1, 3) {
        s.padding = Rect { left: g_small_lp(r, true), right: g_small_lp(r, true), top: g_small_lp(r, true), bottom: g_small_lp(r, true) };
    }
    if r.chance(1, 4) {
        s.border = Rect { left: g_small_lp(r, true), right: g_small_lp(r, true), top: g_small_lp(r, true), bottom: g_small_lp(r, true) };
    }
    s.overflow = Point { x: gen_overflow(r), y: gen_overflow(r) };
    if r.chance(1, 3) {
        s.scrollbar_width = *r.pick(&[0.0, 4.0, 15.0]);
    }
    s.align_self = g_ai(r);
    s.justify_self = g_ai(r);
    let ctx = match r.below(6) {
        0 | 1 => None,
        2 => Some(Ctx::Wrap(r.range(1, 30) as f32 * 4.0, r.range(1, 8) as f32 * 2.5)),
        _ => Some(Ctx::Fixed(r.range(0, 120) as f32 * 0.5, r.range(0, 80) as f32 * 0.5)),
    };
    (s, ctx)
}

fn gen_sibling(r: &mut Rng) -> (Style, Option<Ctx>) {
    let mut s = Style::DEFAULT;
    s.display = Display::Block;
    s.size = Size { width: g_dim(r, 2), height: g_dim(r, 2) };
    if r.chance(1, 3) {
        s.margin = Rect { left: g_margin(r), right: g_margin(r), top: g_margin(r), bottom: g_margin(r) };
    }
    let ctx = if r.chance(1, 2) { Some(Ctx::Fixed(r.range(0, 60) as f32 * 0.5, r.range(0, 40) as f32 * 0.5)) } else { None };
    (s, ctx)
}

/// the witness of the defect fixed by `fix: block absolute layout read the left margin as the bottom margin …`
fn fixed_witness(display: Display) -> Case {
    let mut c = Style::DEFAULT;
    c.display = display;
    c.size = Size { width: Dimension::length(200.0), height: Dimension::length(100.0) };
    let mut s = Style::DEFAULT;
    s.display = Display::Block;
    s.position = Position::Absolute;
    s.inset = Rect { left: auto(), right: auto(), top: length(10.0), bottom: length(20.0) };
    s.size = Size { width: Dimension::length(50.0), height: Dimension::length(30.0) };
    s.margin = Rect { left: length(40.0), right: length(0.0), top: auto(), bottom: length(5.0) };
    Case { container: c, child: s, ctx: None, sibling: None, avail: Size { width: AvailableSpace::Definite(400.0), height: AvailableSpace::Definite(300.0) } }
}

/// two auto margins with insets and size set (the CSS 2.1 §10.3.7 centring case)
fn centring_case(display: Display, w: f32) -> Case {
    let mut c = Style::DEFAULT;
    c.display = display;
    c.size = Size { width: Dimension::length(100.0), height: Dimension::length(100.0) };
    let mut s = Style::DEFAULT;
    s.display = Display::Block;
    s.position = Position::Absolute;
    s.inset = Rect { left: length(0.0), right: length(0.0), top: length(0.0), bottom: length(0.0) };
    s.size = Size { width: Dimension::length(w), height: Dimension::length(w) };
    s.margin = Rect { left: auto(), right: auto(), top: auto(), bottom: auto() };
    Case { container: c, child: s, ctx: None, sibling: None, avail: Size { width: AvailableSpace::Definite(400.0), height: AvailableSpace::Definite(300.0) } }
}

/// a grid container whose padding box has negative extent (size floored at padding+border, gutter not included)
fn negative_extent_case(display: Display) -> Case {
    let mut c = Style::DEFAULT;
    c.display = display;
    c.size = Size { width: Dimension::length(10.0), height: Dimension::length(10.0) };
    c.border = Rect { left: length(4.0), right: length(4.0), top: length(4.0), bottom: length(4.0) };
    c.overflow = Point { x: Overflow::Scroll, y: Overflow::Scroll };
    c.scrollbar_width = 15.0;
    let mut s = Style::DEFAULT;
    s.display = Display::Block;
    s.position = Position::Absolute;
    s.inset = Rect { left: auto(), right: length(1.0), top: auto(), bottom: length(1.0) };
    s.size = Size { width: Dimension::length(2.0), height: Dimension::length(2.0) };
    Case { container: c, child: s, ctx: None, sibling: None, avail: Size { width: AvailableSpace::Definite(400.0), height: AvailableSpace::Definite(300.0) } }
}

fn gen_case(r: &mut Rng, idx: u64) -> Case {
    let display = [Display::Block, Display::Flex, Display::Grid][(idx % 3) as usize];
    let container = gen_container(r, display);
    let (child, ctx) = gen_child(r);
    let sibling = if r.chance(1, 3) {
        let (s, c) = gen_sibling(r);
        // block: the static position of an abs child that follows in-flow content depends on that content; the
        // call-site model covers an abs child that precedes it
        let before = display != Display::Block && r.chance(1, 2);
        Some((s, c, before))
    } else {
        None
    };
    let avail = gen_available(r);
    Case { container, child, ctx, sibling, avail }
}

// ---------------------------------------------------------------------------------------------------------
// implementation-side oracle

#[derive(Clone, Copy)]
enum L {
    Auto,
    Len(f64),
    Pct(f64),
}
fn l_of(c: taffy::style::CompactLength) -> L {
    use taffy::style::CompactLength as CL;
    match c.tag() {
        CL::LENGTH_TAG => L::Len(c.value() as f64),
        CL::PERCENT_TAG => L::Pct(c.value() as f64),
        _ => L::Auto,
    }
}
fn res(l: L, basis: f64) -> Option<f64> {
    match l {
        L::Auto => None,
        L::Len(v) => Some(v),
        L::Pct(p) => Some(p * basis),
    }
}
fn has_pct(r: &Rect<LengthPercentage>) -> bool {
    use taffy::style::CompactLength as CL;
    [r.left, r.right, r.top, r.bottom].iter().any(|x| x.into_raw().tag() == CL::PERCENT_TAG)
}

struct Axis {
    name: &'static str,
    ext_start: f64,
    ext_end: f64,
    inset_start: Option<f64>,
    inset_end: Option<f64>,
    m_start: Option<f64>,
    m_end: Option<f64>,
    style_size_auto: bool,
    min: f64,
    max: Option<f64>,
    loc: f64,
    size: f64,
    om_start: f64,
    om_end: f64,
}

fn oracle(out: &mut Out, kind: &str, case: &Case, cl: &Layout, l: &Layout) {
    if kind == "block" && has_pct(&case.container.border) {
        // the block copy resolves the container's border against the container's own width, the reported border is
        // resolved against the parent's: the equations are stated for containers where the two agree
        out.count("oracle:skip-pct-border");
        return;
    }
    let st = &case.child;
    let ext_w = (cl.size.width - cl.border.right - cl.scrollbar_size.width - cl.border.left) as f64;
    let ext_h = (cl.size.height - cl.border.bottom - cl.scrollbar_size.height - cl.border.top) as f64;
    let pb_w = (l.padding.left + l.padding.right + l.border.left + l.border.right) as f64;
    let pb_h = (l.padding.top + l.padding.bottom + l.border.top + l.border.bottom) as f64;
    let cb = st.box_sizing == BoxSizing::ContentBox;
    let mk_min = |d: Dimension, basis: f64, pb: f64| -> f64 {
        match res(l_of(d.into_raw()), basis) {
            Some(v) => (v + if cb { pb } else { 0.0 }).max(pb),
            None => pb,
        }
    };
    let mk_max = |d: Dimension, basis: f64, pb: f64| -> Option<f64> { res(l_of(d.into_raw()), basis).map(|v| v + if cb { pb } else { 0.0 }) };
    let axes = [
        Axis {
            name: "x",
            ext_start: cl.border.left as f64,
            ext_end: (cl.size.width - cl.border.right - cl.scrollbar_size.width) as f64,
            inset_start: res(l_of(st.inset.left.into_raw()), ext_w),
            inset_end: res(l_of(st.inset.right.into_raw()), ext_w),
            m_start: res(l_of(st.margin.left.into_raw()), ext_w),
            m_end: res(l_of(st.margin.right.into_raw()), ext_w),
            style_size_auto: st.size.width.is_auto(),
            min: mk_min(st.min_size.width, ext_w, pb_w),
            max: mk_max(st.max_size.width, ext_w, pb_w),
            loc: l.location.x as f64,
            size: l.size.width as f64,
            om_start: l.margin.left as f64,
            om_end: l.margin.right as f64,
        },
        Axis {
            name: "y",
            ext_start: cl.border.top as f64,
            ext_end: (cl.size.height - cl.border.bottom - cl.scrollbar_size.height) as f64,
            inset_start: res(l_of(st.inset.top.into_raw()), ext_h),
            inset_end: res(l_of(st.inset.bottom.into_raw()), ext_h),
            // vertical margins resolve against the WIDTH of the padding box
            m_start: res(l_of(st.margin.top.into_raw()), ext_w),
            m_end: res(l_of(st.margin.bottom.into_raw()), ext_w),
            style_size_auto: st.size.height.is_auto(),
            min: mk_min(st.min_size.height, ext_h, pb_h),
            max: mk_max(st.max_size.height, ext_h, pb_h),
            loc: l.location.y as f64,
            size: l.size.height as f64,
            om_start: l.margin.top as f64,
            om_end: l.margin.bottom as f64,
        },
    ];
    let tol = |scale: f64| 1e-4 * scale.abs().max(1.0);
    for a in axes {
        let ext = a.ext_end - a.ext_start;
        let check = |out: &mut Out, tag: &str, lhs: f64, rhs: f64| {
            out.count(&format!("oracle:{tag}"));
            if lhs != rhs {
                if (lhs - rhs).abs() <= tol(ext) {
                    out.count("oracle:inexact");
                } else {
                    out.impl_violation(format!("sig:c11-{tag} {kind} axis {}: {lhs} != {rhs}", a.name));
                }
            }
        };
        let margins_set = a.m_start.is_some() && a.m_end.is_some();
        if let (Some(s), true) = (a.inset_start, margins_set) {
            check(out, "start", a.loc - a.om_start, a.ext_start + s);
        }
        if let (None, Some(e), true) = (a.inset_start, a.inset_end, margins_set) {
            // grid floors the extent of its area at 0 (`align_item_within_area`): on a padding box of negative extent the
            // equation is a known finding of the grid copy, not part of `grid_end_inset_eq_*`
            let tag = if kind == "grid" && ext < 0.0 { "grid-end-negative-extent" } else { "end" };
            check(out, tag, a.ext_end - e, a.loc + a.size + a.om_end);
        }
        if let (Some(s), Some(e), true, true, None) = (a.inset_start, a.inset_end, margins_set, a.style_size_auto, st.aspect_ratio) {
            let raw = (ext - a.m_start.unwrap() - a.m_end.unwrap() - s - e).max(0.0);
            let clamped = match a.max {
                Some(mx) => raw.min(mx).max(a.min),
                None => raw.max(a.min),
            };
            check(out, "stretch", a.size, clamped);
        }
        if kind == "block" {
            if let (Some(s), Some(e)) = (a.inset_start, a.inset_end) {
                match (a.m_start, a.m_end) {
                    (None, Some(me)) => check(out, "automargin", a.om_start, ext - s - e - a.size - me),
                    (Some(ms), None) => check(out, "automargin", a.om_end, ext - s - e - a.size - ms),
                    (None, None) if !a.style_size_auto => {
                        // CSS 2.1 §10.3.7 / the planned statement: equal halves of the remaining space unless negative
                        let free = ext - s - e - a.size;
                        // C11 as stated only speaks about a *single* auto margin, so this is recorded as an observation
                        // (histogram key), never as a violation of C11
                        if free >= 0.0 && (a.om_start != free / 2.0 || a.om_end != free / 2.0) {
                            out.count("observation:block-two-auto-margins-not-split");
                        }
                    }
                    _ => {}
                }
            }
        }
    }
}

fn run_case(out: &mut Out, case: &Case) {
    let kind = kind_of(case.container.display);
    let child_desc = TreeDesc { style: case.child.clone(), ctx: case.ctx, children: vec![] };
    let mut children = vec![];
    let mut index = 0usize;
    let mut n_inflow = 0usize;
    match &case.sibling {
        Some((s, c, before)) => {
            let sib = TreeDesc { style: s.clone(), ctx: *c, children: vec![] };
            n_inflow = 1;
            if *before {
                children.push(sib);
                children.push(child_desc);
                index = 1;
            } else {
                children.push(child_desc);
                children.push(sib);
            }
        }
        None => children.push(child_desc),
    }
    let desc = TreeDesc { style: case.container.clone(), ctx: None, children };
    let req_head = format!(
        "abs {kind} {} {} {} {} {} {index} {n_inflow}",
        style_line(&case.container),
        style_line(&case.child),
        ctx_tok(&case.ctx),
        av(case.avail.width),
        av(case.avail.height)
    );
    out.count(kind);
    match layout_fresh(&desc, case.avail, false) {
        Ok((t, root)) => {
            let ls = all_layouts(&t, root, true);
            let cl = ls[0];
            let l = ls[1 + index];
            out.qa(&format!("{req_head} {}", layout_line(&cl)), &layout_line(&l));
            let st = &case.child;
            let set = |x: LengthPercentageAuto| !x.is_auto();
            out.count(&format!(
                "insets:{}{}{}{}",
                set(st.inset.left) as u8,
                set(st.inset.right) as u8,
                set(st.inset.top) as u8,
                set(st.inset.bottom) as u8
            ));
            let am = [st.margin.left, st.margin.right, st.margin.top, st.margin.bottom].iter().filter(|m| m.is_auto()).count();
            out.count(&format!("auto-margins:{am}"));
            if st.aspect_ratio.is_some() {
                out.count("aspect-ratio");
            }
            if case.sibling.is_some() {
                out.count("sibling");
            }
            if [st.inset.left, st.inset.right, st.inset.top, st.inset.bottom].iter().any(|x| !x.is_auto()) {
                out.nontrivial();
            }
            oracle(out, kind, case, &cl, &l);
        }
        Err(_) => {
            out.qa(&format!("{req_head} 0{}", " 00000000".repeat(20)), "panic");
            out.impl_violation(format!("sig:c11-panic {kind} layout panicked"));
        }
    }
}

pub fn run(cfg: &Cfg, out: &mut Out) -> String {
    let n = cfg.n(9_000, 600_000);
    let mut idx = 0u64;
    // fixed cases first: the witness of the fixed block defect in all three container types, the centring case,
    // the degenerate padding box
    let mut fixed: Vec<(String, Case)> = vec![];
    for d in [Display::Block, Display::Flex, Display::Grid] {
        fixed.push((format!("witness-margin-bottom-{}", kind_of(d)), fixed_witness(d)));
    }
    for d in [Display::Block, Display::Flex, Display::Grid] {
        fixed.push((format!("centre-40-{}", kind_of(d)), centring_case(d, 40.0)));
        fixed.push((format!("centre-60-{}", kind_of(d)), centring_case(d, 60.0)));
        fixed.push((format!("negative-extent-{}", kind_of(d)), negative_extent_case(d)));
    }
    for (label, case) in &fixed {
        if cfg.wants(idx) {
            out.begin_case(idx, label);
            run_case(out, case);
        }
        idx += 1;
    }
    for _ in 0..n {
        if cfg.wants(idx) {
            let mut r = Rng::for_case(cfg.seed, idx);
            out.begin_case(idx, "random");
            let case = gen_case(&mut r, idx);
            run_case(out, &case);
        }
        idx += 1;
    }
    String::new()
}
