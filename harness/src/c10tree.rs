//! C10, tree-level stream — whole trees of nested block containers laid out by the real `TaffyTree`, judged as a whole
//! by the independent specification lean/TaffyVerif/Spec/MarginCollapse.lean (CSS 2.1 §8.3.1).
//!
//! The per-invocation stream of c10.rs takes each child's reported margin sets and size as given; what several
//! invocations and the node cache do *together* (e.g. a width probe whose cached result is reused by the final pass) is
//! only visible on the final layouts of a whole tree. One request line per tree:
//!
//!   c10tree <placement> T <tree tokens> L <n> <n × 21 layout tokens, preorder, unrounded>      answer: ok
//!
//! The harness always answers `ok`; the Lean driver's monitor pass evaluates `MarginCollapse.violations` on the layouts
//! and answers `ok` or `bad c10-tree-<clause> node <k>` (a property-monitor failure = a concrete failing input).
//!
//! Family (every vertical position is determined by §8.3.1 with a short recursive definition):
//!   · every container `display:block`; leaves are block boxes with a fixed-size measure function or empty
//!   · `position:relative` with `inset:auto`; a share of `position:absolute` and `display:none` children
//!   · `overflow:visible`, border-box, no aspect ratio, no percentages, no `auto` margins, `max-*: none`, `min-width: auto`
//!   · margins in px from a small dyadic pool (positive, negative, zero); below the root sometimes dyadic *percentages* for the
//!     top/bottom margins (CSS: of the containing block's WIDTH; the monitor resolves them against the parent's reported content
//!     box), then often together with a width that differs from the container's; padding / border sometimes (per side)
//!   · `height`: auto or a length (0 included); `min-height` only on childless boxes           (exclusion A)
//!   · `height: 0` never around in-flow children that all collapse through                      (exclusion B)
//!   · `width`: auto, sometimes a length
//!   · depth ≤ 4, ≤ 4 children per node
//! Placements: root with a definite width; root content-sized under max-/min-content; the block tree as the only item
//! of a flex row / grid container (content-sized item).
use crate::common::*;
use crate::stylefmt::*;
use crate::treegen::*;
use taffy::prelude::*;

/// first case index of this stream: beyond the per-invocation stream of c10.rs in every tier, so that the indices of
/// both streams do not depend on each other's size
pub const BASE: u64 = 1_000_000;

const VMARGINS: [f32; 16] = [0.0, 0.0, 0.0, 5.0, 10.0, 20.0, 2.5, 7.5, 30.0, 15.0, -5.0, -8.0, -20.0, -2.5, -10.0, 12.5];

fn px(v: f32) -> LengthPercentageAuto {
    LengthPercentageAuto::length(v)
}
fn lpx(v: f32) -> LengthPercentage {
    LengthPercentage::length(v)
}
fn dim_px(d: Dimension) -> Option<f32> {
    let raw = d.into_raw();
    if raw.tag() == taffy::style::CompactLength::LENGTH_TAG {
        Some(raw.value())
    } else {
        None
    }
}
fn lp_px(d: LengthPercentage) -> f32 {
    d.into_raw().value()
}

fn base_style() -> Style {
    let mut s = Style::DEFAULT;
    s.display = Display::Block;
    s.margin = Rect { left: px(0.0), right: px(0.0), top: px(0.0), bottom: px(0.0) };
    s
}

fn in_flow(d: &TreeDesc) -> bool {
    d.style.display != Display::None && d.style.position != Position::Absolute
}

/// generator-side copy of the collapse-through condition, used only to keep exclusion (B) and for the histogram
fn through(d: &TreeDesc) -> bool {
    let s = &d.style;
    let h = dim_px(s.size.height);
    s.display == Display::Block
        && dim_px(s.min_size.height).unwrap_or(0.0) == 0.0
        && lp_px(s.padding.top) == 0.0
        && lp_px(s.padding.bottom) == 0.0
        && lp_px(s.border.top) == 0.0
        && lp_px(s.border.bottom) == 0.0
        && (h.is_none() || h == Some(0.0))
        && !matches!(d.ctx, Some(Ctx::Fixed(_, ch)) if ch != 0.0)
        && d.children.iter().all(|c| !in_flow(c) || through(c))
}

fn common_fields(r: &mut Rng, s: &mut Style) {
    if r.chance(3, 4) {
        s.margin.top = px(*r.pick(&VMARGINS));
        s.margin.bottom = px(*r.pick(&VMARGINS));
    }
    if r.chance(1, 6) {
        s.margin.left = px(*r.pick(&[2.5, 5.0, 10.0]));
    }
    if r.chance(1, 6) {
        s.margin.right = px(*r.pick(&[2.5, 5.0, 10.0]));
    }
    // padding / border per side: each stops the parent/child adjoining on that side
    for side in 0..4 {
        if r.chance(1, 9) {
            let v = lpx(*r.pick(&[1.0, 2.5, 5.0]));
            let rect = if r.chance(1, 2) { &mut s.padding } else { &mut s.border };
            match side {
                0 => rect.top = v,
                1 => rect.bottom = v,
                2 => rect.left = v,
                _ => rect.right = v,
            }
        }
    }
    if r.chance(1, 10) {
        s.size.width = Dimension::length(*r.pick(&[40.0, 62.5, 100.0, 120.0]));
    }
}

fn gen_node(r: &mut Rng, depth: usize, max_depth: usize, top: bool, pct_ok: bool) -> TreeDesc {
    let mut s = base_style();
    common_fields(r, &mut s);
    // percentages of the children's margins refer to this box's content width; the family keeps content box = border box
    // horizontally wherever a child uses one, so that the reference width is not in question
    let kids_pct_ok = lp_px(s.padding.left) == 0.0 && lp_px(s.padding.right) == 0.0 && lp_px(s.border.left) == 0.0 && lp_px(s.border.right) == 0.0;
    let container = depth < max_depth && (top || r.chance(1, 2));
    let mut d = if container {
        let n = if top { 2 + r.below(3) } else { 1 + r.below(4) };
        let children: Vec<TreeDesc> = (0..n).map(|_| gen_node(r, depth + 1, max_depth, false, kids_pct_ok)).collect();
        if r.chance(1, 6) {
            s.size.height = Dimension::length(*r.pick(&[0.0, 0.0, 10.0, 20.0, 50.0, 7.5]));
        }
        TreeDesc { style: s, ctx: None, children }
    } else {
        match r.below(3) {
            // empty box: collapse-through candidate unless a height / min-height / padding / border says otherwise
            0 => {
                if r.chance(1, 4) {
                    s.size.height = Dimension::length(*r.pick(&[0.0, 0.0, 10.0, 20.0, 7.5]));
                }
                if r.chance(1, 8) {
                    s.min_size.height = Dimension::length(*r.pick(&[0.0, 5.0, 10.0]));
                }
                TreeDesc { style: s, ctx: None, children: vec![] }
            }
            // content of a fixed size; height 0 = no line box
            _ => {
                let w = r.range(0, 40) as f32 * 4.0;
                let h = *r.pick(&[0.0, 0.0, 5.0, 10.0, 7.5, 20.0, 2.5, 10.0]);
                if r.chance(1, 10) {
                    s.size.height = Dimension::length(*r.pick(&[0.0, 10.0, 20.0, 7.5]));
                }
                if r.chance(1, 12) {
                    s.min_size.height = Dimension::length(*r.pick(&[0.0, 5.0, 30.0]));
                }
                TreeDesc { style: s, ctx: Some(Ctx::Fixed(w, h)), children: vec![] }
            }
        }
    };
    if !top && pct_ok && r.chance(1, 6) {
        // percentage vertical margins: resolved against the containing block's width, not the box's own
        const PCT: [f32; 6] = [0.125, 0.25, 0.0625, 0.5, -0.125, -0.0625];
        if r.chance(2, 3) {
            d.style.margin.top = LengthPercentageAuto::percent(*r.pick(&PCT));
        }
        if r.chance(2, 3) {
            d.style.margin.bottom = LengthPercentageAuto::percent(*r.pick(&PCT));
        }
        if r.chance(1, 2) {
            d.style.size.width = Dimension::length(*r.pick(&[16.0, 40.0, 62.5, 100.0, 120.0, 160.0, 300.0]));
        }
    }
    if !top {
        if r.chance(1, 14) {
            d.style.display = Display::None;
        } else if r.chance(1, 12) {
            d.style.position = Position::Absolute;
            let one = |r: &mut Rng| if r.chance(1, 2) { LengthPercentageAuto::auto() } else { px(*r.pick(&[0.0, 5.0, 10.0, -5.0])) };
            d.style.inset = Rect { left: one(r), right: one(r), top: one(r), bottom: one(r) };
        }
    }
    // exclusion (B): `height: 0` around in-flow children that all collapse through
    if dim_px(d.style.size.height) == Some(0.0) && d.children.iter().any(in_flow) && through(&d) {
        d.style.size.height = Dimension::auto();
    }
    d
}

fn leaf_h(mt: f32, mb: f32, w: f32, h: f32) -> TreeDesc {
    let mut s = base_style();
    s.margin.top = px(mt);
    s.margin.bottom = px(mb);
    TreeDesc { style: s, ctx: Some(Ctx::Fixed(w, h)), children: vec![] }
}

/// fixed trees that run first
fn fixed_cases() -> Vec<(&'static str, TreeDesc, Size<AvailableSpace>)> {
    let mut v = vec![];
    let flex_wrap = |inner: TreeDesc| {
        let mut p = Style::DEFAULT;
        p.display = Display::Flex;
        p.flex_direction = FlexDirection::Row;
        p.align_items = Some(AlignItems::FlexStart);
        p.size = Size { width: Dimension::length(400.0), height: Dimension::length(400.0) };
        TreeDesc { style: p, ctx: None, children: vec![inner] }
    };
    let def400 = Size { width: AvailableSpace::Definite(400.0), height: AvailableSpace::Definite(400.0) };
    // nested first/last-child margins in a shrink-to-fit container: prev (mb 10) / middle{first mt 30 … last mb 25} / next (mt 5);
    // `middle` is the widest child
    {
        let middle = TreeDesc { style: base_style(), ctx: None, children: vec![leaf_h(30.0, 0.0, 120.0, 20.0), leaf_h(0.0, 25.0, 80.0, 20.0)] };
        let c = TreeDesc { style: base_style(), ctx: None, children: vec![leaf_h(0.0, 10.0, 0.0, 20.0), middle, leaf_h(5.0, 0.0, 0.0, 20.0)] };
        v.push(("in-flex", flex_wrap(c.clone()), def400));
        v.push(("root-maxc", c, Size::MAX_CONTENT));
    }
    // percentage top/bottom margins of a nested block that keeps its margins apart from its children's (border) and is wider
    // than its container: they are 12.5 % of the CONTAINER's content width (seeded change C10-3 resolved them against the box's own)
    {
        let mut ms = base_style();
        ms.margin.top = LengthPercentageAuto::percent(0.125);
        ms.margin.bottom = LengthPercentageAuto::percent(0.125);
        ms.border.top = lpx(2.0);
        ms.border.bottom = lpx(2.0);
        ms.size.width = Dimension::length(300.0);
        let middle = TreeDesc { style: ms, ctx: None, children: vec![leaf_h(0.0, 0.0, 20.0, 10.0)] };
        let mut cs = base_style();
        cs.size.width = Dimension::length(100.0);
        let c = TreeDesc { style: cs, ctx: None, children: vec![leaf_h(0.0, 5.0, 20.0, 20.0), middle, leaf_h(2.5, 0.0, 20.0, 20.0)] };
        v.push(("in-flex", flex_wrap(c.clone()), def400));
        v.push(("root-definite", c, def400));
    }
    // a collapsed-through box with negative margins between two siblings, inside a nested block whose margins adjoin
    {
        let mut e = base_style();
        e.margin.top = px(2.5);
        e.margin.bottom = px(-20.0);
        let empty = TreeDesc { style: e, ctx: None, children: vec![] };
        let mut ms = base_style();
        ms.margin.top = px(-5.0);
        let middle = TreeDesc { style: ms, ctx: None, children: vec![leaf_h(20.0, 10.0, 100.0, 10.0), empty, leaf_h(5.0, -8.0, 40.0, 10.0)] };
        let c = TreeDesc { style: base_style(), ctx: None, children: vec![leaf_h(0.0, 10.0, 20.0, 10.0), middle, leaf_h(-5.0, 0.0, 20.0, 10.0)] };
        v.push(("in-flex", flex_wrap(c.clone()), def400));
        v.push(("root-maxc", c, Size::MAX_CONTENT));
    }
    v
}

fn depth_of(d: &TreeDesc) -> usize {
    1 + d.children.iter().map(depth_of).max().unwrap_or(0)
}

fn features(out: &mut Out, d: &TreeDesc, bfc: bool) {
    let s = &d.style;
    if s.display == Display::None {
        out.count("tree:node:hidden");
        return;
    }
    if s.position == Position::Absolute {
        out.count("tree:node:absolute");
    }
    if s.display == Display::Block && !d.children.is_empty() {
        let top_open = lp_px(s.padding.top) == 0.0 && lp_px(s.border.top) == 0.0;
        let bottom_open = lp_px(s.padding.bottom) == 0.0 && lp_px(s.border.bottom) == 0.0 && dim_px(s.size.height).is_none();
        let flow: Vec<&TreeDesc> = d.children.iter().filter(|c| in_flow(c)).collect();
        out.count(&format!("tree:container:in-flow-children:{}", flow.len()));
        if !bfc && top_open && flow.first().map_or(false, |c| c.style.margin.top != px(0.0)) {
            out.count("tree:container:first-child-margin-adjoins-parent");
        }
        if !bfc && bottom_open && flow.last().map_or(false, |c| c.style.margin.bottom != px(0.0)) {
            out.count("tree:container:last-child-margin-adjoins-parent");
        }
        if !top_open {
            out.count("tree:container:top-separated");
        }
        if dim_px(s.size.height).is_some() {
            out.count("tree:container:definite-height");
        }
        for w in flow.windows(2) {
            let (a, b) = (w[0], w[1]);
            let neg = |m: LengthPercentageAuto| m.into_raw().value() < 0.0;
            out.count(&format!(
                "tree:sibling-pair:{}{}",
                if neg(a.style.margin.bottom) { "neg" } else { "pos" },
                if neg(b.style.margin.top) { "neg" } else { "pos" }
            ));
        }
        for c in &flow {
            if through(c) {
                out.count(if c.children.is_empty() { "tree:child:collapsed-through-leaf" } else { "tree:child:collapsed-through-container" });
            }
        }
    }
    let is_block = s.display == Display::Block;
    for c in &d.children {
        features(out, c, !is_block || c.style.position == Position::Absolute);
    }
}

fn run_tree(out: &mut Out, placement: &str, d: &TreeDesc, avail: Size<AvailableSpace>) {
    out.count(&format!("tree:placement:{placement}"));
    out.count(&format!("tree:nodes:{}", match d.count() {
        0..=3 => "1-3",
        4..=8 => "4-8",
        9..=16 => "9-16",
        17..=32 => "17-32",
        _ => "33+",
    }));
    out.count(&format!("tree:depth:{}", depth_of(d)));
    features(out, d, true);
    match layout_fresh(d, avail, false) {
        Ok((t, root)) => {
            let ls = all_layouts(&t, root, true);
            let mut req = format!("c10tree {placement} T {} L {}", d.line(), ls.len());
            for l in &ls {
                req.push(' ');
                req.push_str(&layout_line(l));
            }
            out.qa(&req, "ok");
            if d.count() >= 4 {
                out.nontrivial();
            }
        }
        Err(_) => {
            out.count("tree:panic");
            out.qa(&format!("c10tree-panic {placement} T {}", d.line()), "panic");
        }
    }
}

pub fn run(cfg: &Cfg, out: &mut Out) {
    let n = cfg.n(3500, 60_000);
    let mut idx = BASE;
    for (placement, d, avail) in fixed_cases() {
        if cfg.wants(idx) {
            out.begin_case(idx, &format!("tree-fixed-{placement}"));
            run_tree(out, placement, &d, avail);
        }
        idx += 1;
    }
    for _ in 0..n {
        if cfg.wants(idx) {
            let mut r = Rng::for_case(cfg.seed, idx);
            let max_depth = 1 + r.below(3); // block tree of depth ≤ 4 (levels 0..=3)
            let mut c = gen_node(&mut r, 0, max_depth, true, false);
            let (placement, d, avail) = match r.below(8) {
                0 | 1 => {
                    c.style.size.width = Dimension::length(*r.pick(&[100.0, 200.0, 300.0, 62.5]));
                    let aw = *r.pick(&[AvailableSpace::MaxContent, AvailableSpace::Definite(400.0), AvailableSpace::Definite(50.0)]);
                    ("root-def", c, Size { width: aw, height: AvailableSpace::MaxContent })
                }
                2 | 3 => {
                    c.style.size.width = Dimension::auto();
                    if r.chance(1, 5) {
                        ("root-minc", c, Size::MIN_CONTENT)
                    } else {
                        ("root-maxc", c, Size::MAX_CONTENT)
                    }
                }
                k => {
                    c.style.size.width = Dimension::auto();
                    let mut p = Style::DEFAULT;
                    let label = if k <= 5 {
                        p.display = Display::Flex;
                        p.flex_direction = FlexDirection::Row;
                        "in-flex"
                    } else {
                        p.display = Display::Grid;
                        "in-grid"
                    };
                    if r.chance(1, 2) {
                        p.align_items = Some(AlignItems::FlexStart);
                    }
                    if r.chance(1, 2) {
                        p.justify_items = Some(AlignItems::Start);
                    }
                    let avail = if r.chance(1, 2) {
                        p.size = Size { width: Dimension::length(400.0), height: Dimension::length(400.0) };
                        Size { width: AvailableSpace::Definite(400.0), height: AvailableSpace::Definite(400.0) }
                    } else {
                        Size::MAX_CONTENT
                    };
                    (label, TreeDesc { style: p, ctx: None, children: vec![c] }, avail)
                }
            };
            out.begin_case(idx, &format!("tree-{placement}"));
            run_tree(out, placement, &d, avail);
        }
        idx += 1;
    }
}
