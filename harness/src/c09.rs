//! C09 — grid tracks. Function-level requests through the `taffy::compute::verif_c09` hooks
//! (`explicit`, `init`, `fr`, `maximise`, `stretch`, `sizing`) and whole layouts observed through
//! `TaffyTree::detailed_layout_info` (`obs` lines for the property monitor + derived `sizing` lines that tie the
//! track-sizing model to whole layouts with known item contributions).
use crate::common::*;
use crate::treegen::{catch, measure, Ctx};
use taffy::compute::verif_c09 as hook;
use taffy::compute::verif_c09::{VItem, VTrack};
use taffy::prelude::*;
use taffy::style::{MaxTrackSizingFunction as MaxT, MinTrackSizingFunction as MinT, CompactLength};
use taffy::{DetailedLayoutInfo, GridTrackRepetition, NonRepeatedTrackSizingFunction as TrackFn, TrackSizingFunction as TrackDef};

// ---------------------------------------------------------------------------------------------------------
// serialisation

fn cl_tok(c: CompactLength) -> String {
    match c.tag() {
        CompactLength::LENGTH_TAG => format!("l:{}", hx(c.value())),
        CompactLength::PERCENT_TAG => format!("p:{}", hx(c.value())),
        CompactLength::AUTO_TAG => "a".into(),
        CompactLength::MIN_CONTENT_TAG => "mn".into(),
        CompactLength::MAX_CONTENT_TAG => "mx".into(),
        CompactLength::FIT_CONTENT_PX_TAG => format!("fp:{}", hx(c.value())),
        CompactLength::FIT_CONTENT_PERCENT_TAG => format!("fq:{}", hx(c.value())),
        CompactLength::FR_TAG => format!("fr:{}", hx(c.value())),
        t => panic!("c09: unsupported tag {t}"),
    }
}
fn min_tok(m: MinT) -> String {
    cl_tok(m.into_raw())
}
fn max_tok(m: MaxT) -> String {
    cl_tok(m.into_raw())
}
fn fn_tok(f: &TrackFn) -> String {
    format!("{} {}", min_tok(f.min), max_tok(f.max))
}
fn template_tok(t: &[TrackDef]) -> String {
    let mut s = format!("{}", t.len());
    for d in t {
        match d {
            TrackDef::Single(f) => s.push_str(&format!(" s {}", fn_tok(f))),
            TrackDef::Repeat(r, fs) => {
                let k = match r {
                    GridTrackRepetition::AutoFill => "fill".to_string(),
                    GridTrackRepetition::AutoFit => "fit".to_string(),
                    GridTrackRepetition::Count(c) => format!("c:{c}"),
                };
                s.push_str(&format!(" r {} {}", k, fs.len()));
                for f in fs {
                    s.push(' ');
                    s.push_str(&fn_tok(f));
                }
            }
        }
    }
    s
}
fn fns_tok(fs: &[TrackFn]) -> String {
    let mut s = format!("{}", fs.len());
    for f in fs {
        s.push(' ');
        s.push_str(&fn_tok(f));
    }
    s
}
fn lp_tok(x: LengthPercentage) -> String {
    cl_tok(x.into_raw())
}
fn dim_tok(x: Dimension) -> String {
    cl_tok(x.into_raw())
}
fn av_tok(a: AvailableSpace) -> String {
    crate::stylefmt::av(a)
}
fn vtrack_fn_tok(t: &VTrack) -> String {
    format!("{}{} {} {}", if t.is_gutter { 'g' } else { 't' }, if t.is_collapsed { 'c' } else { 'n' }, min_tok(t.min), max_tok(t.max))
}
fn hx_inf(x: f32) -> String {
    hxz(x)
}

// ---------------------------------------------------------------------------------------------------------
// generators

const LENS: [f32; 9] = [0.0, 5.0, 10.0, 20.0, 25.0, 40.0, 50.0, 100.0, 12.5];
const FRS: [f32; 7] = [0.0, 0.25, 0.5, 0.625, 1.0, 2.0, 3.0];
const PCTS: [f32; 5] = [0.0, 0.125, 0.25, 0.5, 1.0];

fn g_min(r: &mut Rng) -> MinT {
    match r.below(8) {
        0 | 1 => MinT::length(*r.pick(&LENS)),
        2 => MinT::percent(*r.pick(&PCTS)),
        3 | 4 => MinT::auto(),
        5 => MinT::min_content(),
        6 => MinT::max_content(),
        _ => MinT::length(r.range(0, 16) as f32 * 2.5),
    }
}
fn g_max(r: &mut Rng) -> MaxT {
    match r.below(12) {
        0 | 1 => MaxT::length(*r.pick(&LENS)),
        2 => MaxT::percent(*r.pick(&PCTS)),
        3 | 4 => MaxT::auto(),
        5 => MaxT::min_content(),
        6 => MaxT::max_content(),
        7 => MaxT::fit_content_px(*r.pick(&LENS)),
        8 => MaxT::fit_content_percent(*r.pick(&PCTS)),
        _ => MaxT::fr(*r.pick(&FRS)),
    }
}
/// a track sizing function as users write them: fixed, fr, intrinsic keyword, minmax()
fn g_fn(r: &mut Rng) -> TrackFn {
    match r.below(10) {
        0 | 1 | 2 => {
            let v = *r.pick(&LENS);
            TrackFn { min: MinT::length(v), max: MaxT::length(v) }
        }
        3 => {
            let v = *r.pick(&PCTS);
            TrackFn { min: MinT::percent(v), max: MaxT::percent(v) }
        }
        4 | 5 => TrackFn { min: MinT::auto(), max: MaxT::fr(*r.pick(&FRS)) },
        6 => TrackFn { min: MinT::auto(), max: MaxT::auto() },
        7 => match r.below(3) {
            0 => TrackFn { min: MinT::min_content(), max: MaxT::min_content() },
            1 => TrackFn { min: MinT::max_content(), max: MaxT::max_content() },
            _ => TrackFn { min: MinT::auto(), max: MaxT::fit_content_px(*r.pick(&LENS)) },
        },
        _ => TrackFn { min: g_min(r), max: g_max(r) },
    }
}
/// a function with a fixed component (valid beside an auto-repetition); zero sizes included since fix f9d2661
fn g_fixed_fn(r: &mut Rng) -> TrackFn {
    let pos = [5.0f32, 10.0, 20.0, 25.0, 40.0, 12.5, 0.0];
    match r.below(6) {
        0 | 1 | 2 => {
            let v = *r.pick(&pos);
            TrackFn { min: MinT::length(v), max: MaxT::length(v) }
        }
        3 => TrackFn { min: MinT::length(*r.pick(&pos)), max: *r.pick(&[MaxT::auto(), MaxT::fr(1.0), MaxT::max_content()]) },
        4 => TrackFn { min: *r.pick(&[MinT::auto(), MinT::min_content()]), max: MaxT::length(*r.pick(&pos)) },
        _ => TrackFn { min: MinT::length(*r.pick(&pos)), max: MaxT::length(*r.pick(&pos)) },
    }
}
fn g_template(r: &mut Rng, allow_auto_rep: bool) -> Vec<TrackDef> {
    let n = r.below(5);
    let with_auto = allow_auto_rep && r.chance(1, 2);
    let mut v = vec![];
    let auto_at = if with_auto && n > 0 { r.below(n) } else { usize::MAX };
    for i in 0..n {
        let f = |r: &mut Rng| if with_auto && !r.chance(1, 12) { g_fixed_fn(r) } else { g_fn(r) };
        if i == auto_at || (with_auto && r.chance(1, 16)) {
            let k = 1 + r.below(2);
            let fs: Vec<TrackFn> = (0..k).map(|_| g_fixed_fn(r)).collect();
            let kind = if r.chance(1, 2) { GridTrackRepetition::AutoFill } else { GridTrackRepetition::AutoFit };
            v.push(TrackDef::Repeat(kind, fs));
        } else if r.chance(1, 4) {
            let k = if r.chance(1, 20) { 0 } else { 1 + r.below(3) };
            let fs: Vec<TrackFn> = (0..k).map(|_| f(r)).collect();
            v.push(TrackDef::Repeat(GridTrackRepetition::Count(r.range(0, 3) as u16), fs));
        } else {
            v.push(TrackDef::Single(f(r)));
        }
    }
    v
}
fn g_gap(r: &mut Rng) -> LengthPercentage {
    match r.below(6) {
        0 | 1 => LengthPercentage::length(0.0),
        2 => LengthPercentage::percent(*r.pick(&[0.125f32, 0.25, 0.0625])),
        _ => LengthPercentage::length(*r.pick(&[2.0f32, 2.5, 5.0, 10.0])),
    }
}
fn non_auto_count(t: &[TrackDef]) -> u32 {
    t.iter()
        .map(|d| match d {
            TrackDef::Single(_) => 1,
            TrackDef::Repeat(GridTrackRepetition::Count(c), fs) => *c as u32 * fs.len() as u32,
            _ => 0,
        })
        .sum()
}
fn has_auto_rep(t: &[TrackDef]) -> bool {
    t.iter().any(|d| d.is_auto_repetition())
}

// ---------------------------------------------------------------------------------------------------------
// function-level requests

fn req_explicit(out: &mut Out, size: Dimension, max_size: Dimension, gap: LengthPercentage, inner: Option<f32>, tpl: &[TrackDef], horizontal: bool) -> Option<u16> {
    let mut st = Style::DEFAULT;
    st.display = Display::Grid;
    let (isz, other) = (inner, Some(7.0f32));
    let inner_size = if horizontal {
        st.size.width = size;
        st.max_size.width = max_size;
        st.gap.width = gap;
        st.size.height = Dimension::length(3.0);
        Size { width: isz, height: other }
    } else {
        st.size.height = size;
        st.max_size.height = max_size;
        st.gap.height = gap;
        st.size.width = Dimension::length(3.0);
        Size { width: other, height: isz }
    };
    let req = format!("explicit {} {} {} {} {}", dim_tok(size), dim_tok(max_size), lp_tok(gap), hxo(inner), template_tok(tpl));
    let res = catch(|| hook::explicit_grid_size_in_axis(&st, tpl, inner_size, horizontal));
    let ans = match res {
        Ok(n) => format!("{n}"),
        Err(_) => "panic".to_string(),
    };
    out.qa(&req, &ans);
    out.count(if has_auto_rep(tpl) { "explicit:auto-repeat" } else { "explicit:plain" });
    res.ok()
}

fn show_tracks_fns(ts: &[VTrack]) -> String {
    let mut s = format!("{}", ts.len());
    for t in ts {
        s.push(' ');
        s.push_str(&vtrack_fn_tok(t));
    }
    s
}

fn req_init(out: &mut Out, counts: (u16, u16, u16), tpl: &[TrackDef], autos: &[TrackFn], gap: LengthPercentage, occupied: &[usize]) -> Option<Vec<VTrack>> {
    let occ: Vec<usize> = occupied.to_vec();
    let mut req = format!("init {} {} {} {} {}", counts.0, counts.1, counts.2, lp_tok(gap), occ.len());
    for o in &occ {
        req.push_str(&format!(" {o}"));
    }
    req.push_str(&format!(" {} {}", fns_tok(autos), template_tok(tpl)));
    let occ2 = occ.clone();
    let res = catch(|| hook::init_tracks(counts, tpl, autos, gap, &move |i| occ2.contains(&i)));
    let ans = match &res {
        Ok(ts) => show_tracks_fns(ts),
        Err(_) => "panic".to_string(),
    };
    out.qa(&req, &ans);
    res.ok()
}

fn req_fr(out: &mut Out, tracks: &[(MaxT, f32)], space: f32) -> f32 {
    let vt: Vec<VTrack> = tracks
        .iter()
        .map(|(m, b)| {
            let mut t = VTrack::track(MinT::auto(), *m);
            t.base_size = *b;
            t
        })
        .collect();
    let mut req = format!("fr {} {}", hx(space), tracks.len());
    for (m, b) in tracks {
        req.push_str(&format!(" {} {}", max_tok(*m), hx(*b)));
    }
    let v = hook::find_size_of_fr(&vt, space);
    out.qa(&req, &hxz(v));
    v
}

fn sizing_req_line(tracks: &[VTrack], items: &[VItem], min_size: Option<f32>, max_size: Option<f32>, stretch: bool, avail: AvailableSpace, inner: Option<f32>) -> String {
    let mut req = format!("sizing {} {} {} {} {} {}", hxo(min_size), hxo(max_size), if stretch { 1 } else { 0 }, av_tok(avail), hxo(inner), tracks.len());
    for t in tracks {
        req.push(' ');
        req.push_str(&vtrack_fn_tok(t));
    }
    req.push_str(&format!(" {}", items.len()));
    for it in items {
        req.push_str(&format!(" {} {} {} {} {} {}", it.start, it.end, if it.scroll_container { 1 } else { 0 }, hx(it.min_content), hx(it.max_content), hx(it.minimum)));
    }
    req
}
fn show_sized(ts: &[VTrack]) -> String {
    let mut s = String::new();
    for (i, t) in ts.iter().enumerate() {
        if i > 0 {
            s.push(' ');
        }
        s.push_str(&hx_inf(t.base_size));
    }
    s
}

fn req_sizing(out: &mut Out, tracks: &[VTrack], items: &[VItem], min_size: Option<f32>, max_size: Option<f32>, stretch: bool, avail: AvailableSpace, inner: Option<f32>) -> Option<Vec<VTrack>> {
    let req = sizing_req_line(tracks, items, min_size, max_size, stretch, avail, inner);
    let al = if stretch { AlignContent::Stretch } else { AlignContent::Start };
    let res = catch(|| hook::track_sizing(tracks, items, min_size, max_size, al, avail, inner));
    let ans = match &res {
        Ok(ts) => show_sized(ts),
        Err(_) => "panic".to_string(),
    };
    out.qa(&req, &ans);
    res.ok()
}

fn tracks_line(kind: &str, head: String, tracks: &[VTrack]) -> String {
    let mut req = format!("{kind} {head} {}", tracks.len());
    for t in tracks {
        req.push_str(&format!(" {} {} {}", vtrack_fn_tok(t), hx(t.base_size), hx_inf(t.growth_limit)));
    }
    req
}

// ---------------------------------------------------------------------------------------------------------
// whole layouts

#[derive(Clone)]
struct Child {
    col: Line<GridPlacement>,
    row: Line<GridPlacement>,
    w: f32,
    h: f32,
}
#[derive(Clone)]
struct Grid {
    style: Style,
    children: Vec<Child>,
    avail: Size<AvailableSpace>,
}

struct AxisObs {
    neg: u16,
    expl: u16,
    pos: u16,
    sizes: Vec<f32>,
    gutters: Vec<f32>,
}

fn axis_obs_tok(a: &AxisObs) -> String {
    let mut s = format!("{} {} {} {}", a.neg, a.expl, a.pos, a.sizes.len());
    for x in &a.sizes {
        s.push(' ');
        s.push_str(&hxz(*x));
    }
    s.push_str(&format!(" {}", a.gutters.len()));
    for x in &a.gutters {
        s.push(' ');
        s.push_str(&hxz(*x));
    }
    s
}

/// what the harness knows about the container in one axis without running layout
struct AxisIn {
    tpl: Vec<TrackDef>,
    autos: Vec<TrackFn>,
    gap: LengthPercentage,
    size: Dimension,
    /// padding + border (+ scrollbar: none generated) in this axis
    inset: f32,
    /// `inner_node_size` in this axis (content box) if the style size is a definite length (clamped by min/max size)
    inner: Option<f32>,
    /// max-size in this axis
    max: Dimension,
    /// the content-box size auto-repetitions are counted against (CSS Grid §7.2.3.2: the definite size, else the max size, else
    /// the min size; clamped, floored at padding + border, minus the inset) — computed here from the style alone
    auto_fit_inner: Option<f32>,
    /// min- or max-size set in this axis (the derived sizing request is only made without)
    has_min_max: bool,
    stretch: bool,
}

fn axis_in(g: &Grid, horizontal: bool) -> AxisIn {
    let s = &g.style;
    let r = |x: LengthPercentage| x.into_raw().value();
    let (tpl, autos, gap, size, inset, al, min, max) = if horizontal {
        (s.grid_template_columns.clone(), s.grid_auto_columns.clone(), s.gap.width, s.size.width, r(s.padding.left) + r(s.padding.right) + r(s.border.left) + r(s.border.right), s.justify_content, s.min_size.width, s.max_size.width)
    } else {
        (s.grid_template_rows.clone(), s.grid_auto_rows.clone(), s.gap.height, s.size.height, r(s.padding.top) + r(s.padding.bottom) + r(s.border.top) + r(s.border.bottom), s.align_content, s.min_size.height, s.max_size.height)
    };
    let len = |d: Dimension| if d.into_raw().tag() == CompactLength::LENGTH_TAG { Some(d.into_raw().value()) } else { None };
    // min wins over max (CSS 2.1 §10.4/§10.7)
    let clamp = |v: f32| { let v = len(max).map_or(v, |m| v.min(m)); len(min).map_or(v, |m| v.max(m)) };
    let inner = len(size).map(|v| clamp(v).max(inset) - inset);
    let auto_fit_inner = len(size).or(len(max)).or(len(min)).map(|v| clamp(v).max(inset) - inset);
    AxisIn { tpl, autos, gap, size, inset, inner, max, auto_fit_inner, has_min_max: len(min).is_some() || len(max).is_some(), stretch: al.is_none() || al == Some(AlignContent::Stretch) }
}

fn run_grid(g: &Grid) -> Result<(AxisObs, AxisObs, Vec<(u16, u16, u16, u16)>, Layout), String> {
    catch(|| {
        let mut t: TaffyTree<Ctx> = TaffyTree::new();
        t.disable_rounding();
        let kids: Vec<NodeId> = g
            .children
            .iter()
            .map(|c| {
                let st = Style { grid_column: c.col, grid_row: c.row, ..Style::DEFAULT };
                t.new_leaf_with_context(st, Ctx::Fixed(c.w, c.h)).unwrap()
            })
            .collect();
        let root = t.new_with_children(g.style.clone(), &kids).unwrap();
        t.compute_layout_with_measure(root, g.avail, |k, a, _id, ctx, _style| measure(k, a, ctx)).unwrap();
        let info = match t.detailed_layout_info(root) {
            DetailedLayoutInfo::Grid(info) => info.clone(),
            _ => panic!("no grid info"),
        };
        let ax = |a: &taffy::DetailedGridTracksInfo| AxisObs { neg: a.negative_implicit_tracks, expl: a.explicit_tracks, pos: a.positive_implicit_tracks, sizes: a.sizes.clone(), gutters: a.gutters.clone() };
        let items = info.items.iter().map(|i| (i.column_start, i.column_end, i.row_start, i.row_end)).collect();
        (ax(&info.columns), ax(&info.rows), items, *t.layout(root).unwrap())
    })
}

/// the contributions of a default-styled `Ctx::Fixed` leaf in one axis, replicating `GridItem::minimum_contribution`
fn leaf_items(tracks: &[VTrack], spans: &[(u16, u16)], sizes: &[f32], inner: Option<f32>) -> Vec<VItem> {
    let any_auto_min = tracks.iter().any(|t| t.min.is_auto());
    let any_fr = tracks.iter().any(|t| t.max.is_fr());
    spans
        .iter()
        .zip(sizes)
        .map(|((s, e), w)| {
            let lo = 2 * *s as usize + 1;
            let hi = 2 * *e as usize;
            let spanned = &tracks[lo..hi];
            let one = spanned.len() == 1;
            let content_based = any_auto_min && (one || !any_fr);
            let mut minimum = if content_based { *w } else { 0.0 };
            if spanned.iter().all(|t| t.max.definite_value(inner, |_, _| 0.0).is_some()) {
                let limit: f32 = spanned.iter().map(|t| t.max.definite_value(inner, |_, _| 0.0).unwrap()).sum();
                minimum = minimum.min(limit);
            }
            VItem { start: *s, end: *e, scroll_container: false, min_content: *w, max_content: *w, minimum }
        })
        .collect()
}

const TOL: f32 = 1.0 / 262144.0;

/// evaluate the property clauses directly on the implementation's observation; returns impl-violation strings
fn oracle_axis(name: &str, a: &AxisIn, o: &AxisObs, occupied: &[usize], content_box: f32, avail_definite: bool) -> Vec<String> {
    let mut v = vec![];
    let n = o.sizes.len();
    if o.gutters.len() != n + 1 || n != (o.neg + o.expl + o.pos) as usize {
        v.push(format!("sig:c09-shape {name}: {} sizes, {} gutters, counts {}+{}+{}", n, o.gutters.len(), o.neg, o.expl, o.pos));
        return v;
    }
    // sizing functions per track as initialisation assigns them (auto-fit tracks without items collapse to 0px)
    let occ: Vec<usize> = occupied.to_vec();
    let fns = match catch(|| hook::init_tracks((o.neg, o.expl, o.pos), &a.tpl, &a.autos, a.gap, &move |i| occ.contains(&i))) {
        Ok(f) => f,
        Err(_) => return v,
    };
    for i in 0..n {
        let f = &fns[2 * i + 1];
        if let (Some(mn), Some(mx)) = (f.min.definite_value(None, |_, _| 0.0), f.max.definite_value(None, |_, _| 0.0)) {
            if mn == mx && o.sizes[i] != mn {
                v.push(format!("sig:c09-fixed-track-not-exact {name} track {i}: fixed {mn} got {}", o.sizes[i]));
            }
        }
    }
    let gap_basis = if avail_definite || a.inner.is_some() { a.inner } else { Some(content_box) };
    let _ = gap_basis;
    let gap = match a.gap.into_raw().tag() {
        CompactLength::LENGTH_TAG => Some(a.gap.into_raw().value()),
        _ => None, // percentage gaps: re-resolution against the final content box is not part of the modelled clauses
    };
    for (i, gsz) in o.gutters.iter().enumerate() {
        let outer = i == 0 || i == n;
        let want = if outer || fns[2 * i].is_collapsed { Some(0.0) } else { gap };
        if let Some(w) = want {
            if *gsz != w {
                v.push(format!("sig:c09-gutter-not-gap {name} gutter {i}: want {w} got {gsz}"));
            }
        }
    }
    // fill clause
    if let Some(inner) = a.inner {
        let frs: Vec<(f32, f32)> = (0..n).filter(|i| fns[2 * i + 1].max.is_fr()).map(|i| (fns[2 * i + 1].max.into_raw().value(), o.sizes[i])).collect();
        let fsum: f32 = frs.iter().map(|x| x.0).sum();
        if fsum >= 1.0 {
            let total: f32 = o.sizes.iter().sum::<f32>() + o.gutters.iter().sum::<f32>();
            // f32 rounding accumulates over the additions: tolerance 2^-21 · (n + 8) · extent (≈ 2^-18 for few tracks)
            if total < inner - TOL * 0.125 * (n as f32 + 8.0) * inner.max(1.0) {
                // which fr tracks are still flexible at the fixed point: size = factor * F with F the smallest ratio
                let fr_size = frs.iter().filter(|x| x.0 > 0.0).map(|x| x.1 / x.0).fold(f32::INFINITY, f32::min);
                let flexible_sum: f32 = frs.iter().filter(|x| x.0 > 0.0 && (x.1 - x.0 * fr_size).abs() <= TOL * x.1.max(1.0)).map(|x| x.0).sum();
                if flexible_sum < 1.0 {
                    v.push(format!("sig:c09-fr-underfill-content-floored {name}: tracks+gutters {total} < content box {inner}, fr factors sum {fsum}, still-flexible sum {flexible_sum}"));
                } else {
                    v.push(format!("sig:c09-fr-underfill {name}: tracks+gutters {total} < content box {inner}, fr factors sum {fsum}"));
                }
            }
        }
    }
    v
}

fn emit_grid(out: &mut Out, g: &Grid) {
    let cols = axis_in(g, true);
    let rows = axis_in(g, false);
    // explicit counts through the function hook, with the container size the layout will use
    let auto_fit = Size { width: cols.auto_fit_inner, height: rows.auto_fit_inner };
    let res = run_grid(g);
    let (oc, or, items, layout) = match res {
        Ok(x) => x,
        Err(m) => {
            out.qa("obs-panic", &format!("panic {}", m.chars().take(60).collect::<String>().replace(' ', "_")));
            out.impl_violation(format!("sig:c09-layout-panic {m}"));
            return;
        }
    };
    let cb_w = (layout.size.width - cols.inset).max(0.0);
    let cb_h = (layout.size.height - rows.inset).max(0.0);
    for (name, a, o, horizontal, cb) in [("cols", &cols, &oc, true, cb_w), ("rows", &rows, &or, false, cb_h)] {
        let occupied: Vec<usize> = (0..(o.neg + o.expl + o.pos) as usize)
            .filter(|t| items.iter().any(|it| if horizontal { (it.0 as usize - 1) <= *t && *t < it.1 as usize - 1 } else { (it.2 as usize - 1) <= *t && *t < it.3 as usize - 1 }))
            .collect();
        let mut occ_tok = format!("{}", occupied.len());
        for x in &occupied {
            occ_tok.push_str(&format!(" {x}"));
        }
        // obs line: everything the monitor needs + the observation; the model has nothing to add (answers ok)
        let req = format!(
            "obs {} {} {} {} {} {} {} {} {} | {}",
            name,
            dim_tok(a.size),
            dim_tok(a.max),
            lp_tok(a.gap),
            hxo(a.inner),
            hxo(a.auto_fit_inner),
            occ_tok,
            fns_tok(&a.autos),
            template_tok(&a.tpl),
            axis_obs_tok(o)
        );
        out.qa(&req, "ok");
        let avail_def = if horizontal { matches!(g.avail.width, AvailableSpace::Definite(_)) } else { matches!(g.avail.height, AvailableSpace::Definite(_)) };
        for w in oracle_axis(name, a, o, &occupied, cb, avail_def) {
            out.impl_violation(w);
        }
        // explicit count = what the function returns for this style
        let st = &g.style;
        let n = hook::explicit_grid_size_in_axis(st, &a.tpl, auto_fit, horizontal);
        if n != o.expl {
            out.impl_violation(format!("sig:c09-explicit-count {name}: reported {} but compute_explicit_grid_size_in_axis gives {n}", o.expl));
        }
        // derived sizing request (definite container size in this axis, nothing percentage-dependent on the other axis)
        if let (Some(inner), false) = (a.inner, a.has_min_max) {
            let occ = occupied.clone();
            let tracks = hook::init_tracks((o.neg, o.expl, o.pos), &a.tpl, &a.autos, a.gap, &move |i| occ.contains(&i));
            let spans: Vec<(u16, u16)> = items.iter().map(|it| if horizontal { (it.0 - 1, it.1 - 1) } else { (it.2 - 1, it.3 - 1) }).collect();
            let sizes: Vec<f32> = g.children.iter().map(|c| if horizontal { c.w } else { c.h }).collect();
            let vitems = leaf_items(&tracks, &spans, &sizes, Some(inner));
            let req = sizing_req_line(&tracks, &vitems, None, None, a.stretch, AvailableSpace::Definite(inner), Some(inner));
            let mut ans = String::new();
            for i in 0..o.sizes.len() {
                ans.push_str(&hxz(o.gutters[i]));
                ans.push(' ');
                ans.push_str(&hxz(o.sizes[i]));
                ans.push(' ');
            }
            ans.push_str(&hxz(*o.gutters.last().unwrap()));
            out.qa(&req, &ans);
            out.count("layout:derived-sizing");
        }
    }
    out.count(&format!("layout:children={}", g.children.len().min(4)));
}

fn px(v: f32) -> TrackFn {
    TrackFn { min: MinT::length(v), max: MaxT::length(v) }
}
fn frf(v: f32) -> TrackFn {
    TrackFn { min: MinT::auto(), max: MaxT::fr(v) }
}
fn base_grid(w: Dimension, h: Dimension) -> Style {
    Style { display: Display::Grid, size: Size { width: w, height: h }, ..Style::DEFAULT }
}
fn at(col: i16, row: i16) -> (Line<GridPlacement>, Line<GridPlacement>) {
    (Line { start: line(col), end: GridPlacement::Auto }, Line { start: line(row), end: GridPlacement::Auto })
}

fn gen_grid(r: &mut Rng) -> Grid {
    let dim = |r: &mut Rng| if r.chance(2, 3) { Dimension::length(*r.pick(&[100.0f32, 110.0, 120.0, 200.0, 60.0, 35.0, 0.0, 300.0])) } else { Dimension::auto() };
    let mut st = base_grid(dim(r), dim(r));
    let tpl = |r: &mut Rng| -> Vec<TrackDef> {
        let n = r.below(4);
        let mut v = vec![];
        for _ in 0..n {
            if r.chance(1, 10) {
                v.push(TrackDef::Repeat(GridTrackRepetition::Count(r.range(1, 2) as u16), vec![g_fn(r), g_fn(r)]));
            } else {
                v.push(TrackDef::Single(g_fn(r)));
            }
        }
        if r.chance(1, 5) {
            // a valid auto-repetition template
            let k = r.below(3);
            // fixed tracks around the auto-repetition, one in three as a `repeat(<count>, …)` of one or two tracks (the track
            // index that decides which auto-fit tracks collapse has to count every repetition: seeded change C09-3)
            let mut v: Vec<TrackDef> = (0..k)
                .map(|_| {
                    if r.chance(1, 3) {
                        let m = 1 + r.below(2);
                        TrackDef::Repeat(GridTrackRepetition::Count(r.range(1, 3) as u16), (0..m).map(|_| g_fixed_fn(r)).collect())
                    } else {
                        TrackDef::Single(g_fixed_fn(r))
                    }
                })
                .collect();
            let kind = if r.chance(1, 2) { GridTrackRepetition::AutoFill } else { GridTrackRepetition::AutoFit };
            let at = r.below(k + 1);
            v.insert(at, TrackDef::Repeat(kind, vec![g_fixed_fn(r)]));
            return v;
        }
        v
    };
    st.grid_template_columns = tpl(r);
    st.grid_template_rows = tpl(r);
    if r.chance(1, 3) {
        st.grid_auto_columns = (0..1 + r.below(2)).map(|_| g_fn(r)).collect();
    }
    if r.chance(1, 3) {
        st.grid_auto_rows = (0..1 + r.below(2)).map(|_| g_fn(r)).collect();
    }
    // one grid in four has min and/or max sizes (lengths): auto-repetitions are counted against the size, else the max size, else
    // the min size (seeded change C09-4 swapped the last two)
    if r.chance(1, 4) {
        let mm = |r: &mut Rng| if r.chance(1, 2) { Dimension::length(*r.pick(&[20.0f32, 40.0, 60.0, 90.0, 150.0, 240.0])) } else { Dimension::auto() };
        st.min_size = Size { width: mm(r), height: mm(r) };
        st.max_size = Size { width: mm(r), height: mm(r) };
    }
    // length gaps mostly (percentage gaps are re-resolved for indefinite containers)
    st.gap = Size { width: g_gap(r), height: g_gap(r) };
    if r.chance(1, 4) {
        let p = |r: &mut Rng| LengthPercentage::length(*r.pick(&[0.0f32, 2.0, 5.0]));
        st.padding = Rect { left: p(r), right: p(r), top: p(r), bottom: p(r) };
    }
    if r.chance(1, 5) {
        let p = |r: &mut Rng| LengthPercentage::length(*r.pick(&[0.0f32, 1.0, 3.0]));
        st.border = Rect { left: p(r), right: p(r), top: p(r), bottom: p(r) };
    }
    let ac = |r: &mut Rng| match r.below(8) {
        0 => Some(AlignContent::Start),
        1 => Some(AlignContent::Center),
        2 => Some(AlignContent::SpaceBetween),
        3 => Some(AlignContent::Stretch),
        4 => Some(AlignContent::End),
        _ => None,
    };
    st.justify_content = ac(r);
    st.align_content = ac(r);
    st.grid_auto_flow = *r.pick(&[GridAutoFlow::Row, GridAutoFlow::Column, GridAutoFlow::RowDense]);
    let nkids = 1 + r.below(4);
    let mut children = vec![];
    for _ in 0..nkids {
        let pl = |r: &mut Rng| -> Line<GridPlacement> {
            match r.below(5) {
                0 | 1 => Line { start: GridPlacement::Auto, end: GridPlacement::Auto },
                2 => Line { start: line(r.range(1, 4) as i16), end: GridPlacement::Auto },
                3 => Line { start: line(r.range(1, 3) as i16), end: span(r.range(1, 3) as u16) },
                _ => Line { start: line(r.range(-3, 3) as i16), end: GridPlacement::Auto },
            }
        };
        children.push(Child { col: pl(r), row: pl(r), w: r.range(0, 40) as f32 * 2.5, h: r.range(0, 20) as f32 * 2.5 });
    }
    let av = |r: &mut Rng| match r.below(4) {
        0 => AvailableSpace::MinContent,
        1 => AvailableSpace::MaxContent,
        _ => AvailableSpace::Definite(r.range(0, 60) as f32 * 5.0),
    };
    Grid { style: st, children, avail: Size { width: av(r), height: av(r) } }
}

// ---------------------------------------------------------------------------------------------------------

fn gen_sizing(r: &mut Rng, out: &mut Out) {
    // tracks from a generated template through the real initialisation, so the vector always has the real shape
    let tpl: Vec<TrackDef> = (0..1 + r.below(4)).map(|_| TrackDef::Single(g_fn(r))).collect();
    let n = tpl.len() as u16;
    let gap = if r.chance(1, 2) { LengthPercentage::length(0.0) } else { g_gap(r) };
    let tracks = hook::init_tracks((0, n, 0), &tpl, &[], gap, &|_| true);
    let nitems = r.below(4);
    let mut items = vec![];
    for _ in 0..nitems {
        let s = r.below(n as usize) as u16;
        let e = s + 1 + r.below((n - s) as usize).min(r.below(3)) as u16;
        let minc = r.range(0, 24) as f32 * 2.5;
        let maxc = minc + r.range(0, 3) as f32 * r.range(0, 16) as f32 * 2.5;
        let minimum = match r.below(3) {
            0 => 0.0,
            1 => minc,
            _ => (minc - 5.0).max(0.0),
        };
        items.push(VItem { start: s, end: e, scroll_container: r.chance(1, 6), min_content: minc, max_content: maxc, minimum });
    }
    let sz = |r: &mut Rng| *r.pick(&[0.0f32, 35.0, 60.0, 100.0, 110.0, 120.0, 200.0, 300.0, 57.5]);
    let (avail, inner) = match r.below(5) {
        0 => (AvailableSpace::MinContent, None),
        1 => (AvailableSpace::MaxContent, None),
        2 => (AvailableSpace::Definite(sz(r)), None),
        _ => {
            let v = sz(r);
            (AvailableSpace::Definite(v), Some(v))
        }
    };
    let min_size = if r.chance(1, 5) { Some(sz(r)) } else { None };
    let max_size = if r.chance(1, 6) { Some(sz(r)) } else { None };
    let stretch = r.chance(1, 2);
    out.count(&format!("sizing:avail={}", match avail { AvailableSpace::MinContent => "min", AvailableSpace::MaxContent => "max", _ => if inner.is_some() { "definite+inner" } else { "definite" } }));
    if let Some(ts) = req_sizing(out, &tracks, &items, min_size, max_size, stretch, avail, inner) {
        if ts.iter().any(|t| t.base_size > 0.0) {
            out.nontrivial();
        }
    }
}

pub fn run(cfg: &Cfg, out: &mut Out) -> String {
    let mut idx = 0u64;
    // ---- fixed cases -----------------------------------------------------------------------------------
    // (1) DESIGN §9 item 7: repeat(2,[10px 10px]) repeat(auto-fill,[20px]) in 100px: explicit count = emitted tracks
    if cfg.wants(idx) {
        out.begin_case(idx, "fixed-witness7");
        let tpl = vec![TrackDef::Repeat(GridTrackRepetition::Count(2), vec![px(10.0), px(10.0)]), TrackDef::Repeat(GridTrackRepetition::AutoFill, vec![px(20.0)])];
        let zero = LengthPercentage::length(0.0);
        let n = req_explicit(out, Dimension::length(100.0), Dimension::auto(), zero, Some(100.0), &tpl, true).unwrap_or(0);
        if let Some(ts) = req_init(out, (0, n, 0), &tpl, &[], zero, &[]) {
            if ts.len() != 2 * n as usize + 1 {
                out.impl_violation(format!("sig:c09-auto-repeat-count explicit {n} but {} tracks emitted", (ts.len() - 1) / 2));
            }
        }
        let mut st = base_grid(Dimension::length(100.0), Dimension::length(20.0));
        st.grid_template_columns = tpl;
        emit_grid(out, &Grid { style: st, children: vec![Child { col: at(1, 1).0, row: at(1, 1).1, w: 5.0, h: 5.0 }], avail: Size::MAX_CONTENT });
        out.nontrivial();
    }
    idx += 1;
    // (2) DESIGN §9 item 11: 0.5fr 0.6fr, a 100-wide item in the second column, 110-wide grid => 5 + 100 = 105 < 110
    if cfg.wants(idx) {
        out.begin_case(idx, "fixed-fr-underfill");
        let mut st = base_grid(Dimension::length(110.0), Dimension::length(20.0));
        st.grid_template_columns = vec![TrackDef::Single(frf(0.5)), TrackDef::Single(frf(0.6))];
        let (c, rw) = at(2, 1);
        emit_grid(out, &Grid { style: st, children: vec![Child { col: c, row: rw, w: 100.0, h: 5.0 }], avail: Size::MAX_CONTENT });
        req_fr(out, &[(MaxT::fr(0.5), 0.0), (MaxT::fr(0.6), 100.0)], 110.0);
        out.nontrivial();
    }
    idx += 1;
    // (3) THRESHOLD leak of distribute_space_up_to_limits: minmax(0,50px) minmax(0,50px) 10px in 10.015625px
    if cfg.wants(idx) {
        out.begin_case(idx, "fixed-threshold-leak");
        let mut st = base_grid(Dimension::length(10.015625), Dimension::length(20.0));
        let mm = TrackFn { min: MinT::length(0.0), max: MaxT::length(50.0) };
        st.grid_template_columns = vec![TrackDef::Single(mm), TrackDef::Single(mm), TrackDef::Single(px(10.0))];
        let (c, rw) = at(3, 1);
        emit_grid(out, &Grid { style: st, children: vec![Child { col: c, row: rw, w: 1.0, h: 5.0 }], avail: Size::MAX_CONTENT });
        out.nontrivial();
    }
    idx += 1;
    // (3b) fixed by f9d2661: repeat(auto-fill,[0px]) in 100px no longer divides by zero: 101 explicit tracks
    if cfg.wants(idx) {
        out.begin_case(idx, "fixed-auto-repeat-zero-size");
        let tpl = vec![TrackDef::Repeat(GridTrackRepetition::AutoFill, vec![px(0.0)])];
        let zero = LengthPercentage::length(0.0);
        let n = req_explicit(out, Dimension::length(100.0), Dimension::auto(), zero, Some(100.0), &tpl, true);
        if n != Some(101) {
            out.impl_violation(format!("sig:c03-auto-repeat-zero-size-overflow repeat(auto-fill,[0px]) in 100px: explicit count {:?}, expected 101", n));
        }
        if let Some(n) = n {
            req_init(out, (0, n, 0), &tpl, &[], zero, &[]);
        }
        let tpl2 = vec![TrackDef::Single(px(10.0)), TrackDef::Repeat(GridTrackRepetition::AutoFit, vec![px(0.0), px(0.0)])];
        req_explicit(out, Dimension::length(100.0), Dimension::auto(), zero, Some(100.0), &tpl2, false);
        let mut st = base_grid(Dimension::length(100.0), Dimension::length(20.0));
        st.grid_template_columns = tpl;
        emit_grid(out, &Grid { style: st, children: vec![Child { col: at(1, 1).0, row: at(1, 1).1, w: 5.0, h: 5.0 }], avail: Size::MAX_CONTENT });
        out.nontrivial();
    }
    idx += 1;
    // (3c) seeded change C09-3: `repeat(2, 40px) repeat(auto-fit, 100px)`, 500px wide, gap 10, items in columns 1, 2 and 4: the
    // occupied auto-fit column 4 keeps its 100px, the empty column 3 (and the gutter after it) collapses
    if cfg.wants(idx) {
        out.begin_case(idx, "fixed-count-repeat-before-auto-fit");
        let mut st = base_grid(Dimension::length(500.0), Dimension::length(20.0));
        st.grid_template_columns = vec![TrackDef::Repeat(GridTrackRepetition::Count(2), vec![px(40.0)]), TrackDef::Repeat(GridTrackRepetition::AutoFit, vec![px(100.0)])];
        st.gap = Size { width: LengthPercentage::length(10.0), height: LengthPercentage::length(0.0) };
        let children = [1, 2, 4].iter().map(|c| { let (col, row) = at(*c, 1); Child { col, row, w: 5.0, h: 5.0 } }).collect();
        emit_grid(out, &Grid { style: st, children, avail: Size::MAX_CONTENT });
        out.nontrivial();
    }
    idx += 1;
    // (4) fr basics
    if cfg.wants(idx) {
        out.begin_case(idx, "fixed-fr");
        req_fr(out, &[(MaxT::fr(1.0), 0.0), (MaxT::fr(2.0), 0.0), (MaxT::length(10.0), 10.0)], 100.0);
        req_fr(out, &[(MaxT::fr(0.0), 7.0), (MaxT::fr(1.0), 0.0)], 50.0);
        req_fr(out, &[(MaxT::fr(0.25), 0.0), (MaxT::fr(0.25), 0.0)], 50.0);
        req_fr(out, &[(MaxT::fr(1.0), 60.0), (MaxT::fr(1.0), 0.0), (MaxT::fr(1.0), 30.0)], 100.0);
        req_fr(out, &[(MaxT::fr(1.0), 60.0)], 0.0);
        out.nontrivial();
    }
    idx += 1;

    // ---- generated -------------------------------------------------------------------------------------
    let n = cfg.n(6000, 1_500_000);
    for _ in 0..n {
        if cfg.wants(idx) {
            let mut r = Rng::for_case(cfg.seed, idx);
            match r.below(10) {
                0 | 1 => {
                    out.begin_case(idx, "explicit+init");
                    let tpl = g_template(&mut r, true);
                    let inner = match r.below(4) {
                        0 => None,
                        _ => Some(*r.pick(&[0.0f32, 35.0, 60.0, 100.0, 110.0, 120.0, 200.0, 57.5, 1000.0])),
                    };
                    let size = match r.below(3) {
                        0 => Dimension::auto(),
                        1 => Dimension::percent(0.5),
                        _ => Dimension::length(inner.unwrap_or(50.0)),
                    };
                    let max_size = if r.chance(1, 4) { Dimension::length(80.0) } else { Dimension::auto() };
                    let gap = g_gap(&mut r);
                    let horizontal = r.chance(1, 2);
                    let n = req_explicit(out, size, max_size, gap, inner, &tpl, horizontal);
                    if let Some(n) = n {
                        let neg = r.below(4) as u16;
                        let pos = r.below(4) as u16;
                        let autos: Vec<TrackFn> = (0..r.below(4)).map(|_| g_fn(&mut r)).collect();
                        let total = (neg + n + pos) as usize;
                        let occupied: Vec<usize> = (0..total).filter(|_| r.chance(1, 2)).collect();
                        if let Some(ts) = req_init(out, (neg, n, pos), &tpl, &autos, gap, &occupied) {
                            // implementation-side oracle: explicit count = emitted tracks
                            if ts.len() != 2 * total + 1 {
                                out.impl_violation(format!("sig:c09-auto-repeat-count explicit {n} but {} tracks emitted in total (neg {neg} pos {pos})", (ts.len() - 1) / 2));
                            }
                            if n > 0 {
                                out.nontrivial();
                            }
                        }
                    }
                }
                2 => {
                    out.begin_case(idx, "init-free");
                    // counts not tied to the template (the function must still behave; keep explicit >= non-auto count)
                    let tpl = g_template(&mut r, true);
                    let mut e = r.below(7) as u32;
                    if has_auto_rep(&tpl) && e > 0 {
                        e = e.max(non_auto_count(&tpl));
                    }
                    let neg = r.below(4) as u16;
                    let pos = r.below(4) as u16;
                    let autos: Vec<TrackFn> = (0..r.below(4)).map(|_| g_fn(&mut r)).collect();
                    let gap = g_gap(&mut r);
                    let occupied: Vec<usize> = (0..12).filter(|_| r.chance(1, 2)).collect();
                    req_init(out, (neg, e as u16, pos), &tpl, &autos, gap, &occupied);
                    out.nontrivial();
                }
                3 | 4 => {
                    out.begin_case(idx, "fr");
                    let k = 1 + r.below(5);
                    let tracks: Vec<(MaxT, f32)> = (0..k)
                        .map(|_| {
                            let m = if r.chance(2, 3) { MaxT::fr(*r.pick(&FRS)) } else { g_max(&mut r) };
                            (m, *r.pick(&[0.0f32, 0.0, 5.0, 10.0, 30.0, 60.0, 100.0, 12.5]))
                        })
                        .collect();
                    let space = *r.pick(&[0.0f32, 35.0, 60.0, 100.0, 110.0, 120.0, 200.0, 57.5]);
                    let v = req_fr(out, &tracks, space);
                    if v != 0.0 {
                        out.nontrivial();
                    }
                }
                5 => {
                    out.begin_case(idx, "maximise+stretch");
                    let k = 1 + r.below(4);
                    let tpl: Vec<TrackDef> = (0..k).map(|_| TrackDef::Single(g_fn(&mut r))).collect();
                    let mut tracks = hook::init_tracks((0, k as u16, 0), &tpl, &[], g_gap(&mut r), &|_| true);
                    for t in tracks.iter_mut() {
                        let b = t.min.definite_value(Some(100.0), |_, _| 0.0).unwrap_or(*r.pick(&[0.0f32, 10.0, 30.0]));
                        t.base_size = b;
                        t.growth_limit = b + *r.pick(&[0.0f32, 0.0, 5.0, 20.0, 100.0]);
                    }
                    let sz = |r: &mut Rng| *r.pick(&[0.0f32, 35.0, 60.0, 100.0, 110.0, 200.0, 300.0]);
                    let avail = match r.below(4) {
                        0 => AvailableSpace::MinContent,
                        1 => AvailableSpace::MaxContent,
                        _ => AvailableSpace::Definite(sz(&mut r)),
                    };
                    let inner = if r.chance(1, 2) { Some(sz(&mut r)) } else { None };
                    let req = tracks_line("maximise", format!("{} {}", hxo(inner), av_tok(avail)), &tracks);
                    let res = hook::maximise_tracks(&tracks, inner, avail);
                    out.qa(&req, &show_sized(&res));
                    let req = tracks_line("stretch", format!("{} {}", hxo(inner), av_tok(avail)), &tracks);
                    let res = hook::stretch_auto_tracks(&tracks, inner, avail);
                    out.qa(&req, &show_sized(&res));
                    // align_tracks on the same vector (some tracks collapsed)
                    let mut at = tracks.clone();
                    for t in at.iter_mut() {
                        if r.chance(1, 8) {
                            t.is_collapsed = true;
                        }
                    }
                    let (mode, mtok) = *r.pick(&[
                        (AlignContent::Start, "s"),
                        (AlignContent::End, "e"),
                        (AlignContent::FlexStart, "fs"),
                        (AlignContent::FlexEnd, "fe"),
                        (AlignContent::Center, "c"),
                        (AlignContent::Stretch, "st"),
                        (AlignContent::SpaceBetween, "sb"),
                        (AlignContent::SpaceEvenly, "se"),
                        (AlignContent::SpaceAround, "sa"),
                    ]);
                    let cb = sz(&mut r);
                    let pad = *r.pick(&[0.0f32, 2.0, 5.0]);
                    let bor = *r.pick(&[0.0f32, 1.0, 3.0]);
                    let req = tracks_line("align", format!("{} {} {} {}", hx(cb), hx(pad), hx(bor), mtok), &at);
                    let offs = hook::align_tracks(cb, Line { start: pad, end: 0.0 }, Line { start: bor, end: 0.0 }, &at, mode);
                    let ans: Vec<String> = offs.iter().map(|x| hxz(*x)).collect();
                    out.qa(&req, &ans.join(" "));
                    out.nontrivial();
                }
                6 | 7 => {
                    out.begin_case(idx, "sizing");
                    gen_sizing(&mut r, out);
                }
                _ => {
                    out.begin_case(idx, "layout");
                    let g = gen_grid(&mut r);
                    emit_grid(out, &g);
                    out.nontrivial();
                }
            }
        }
        idx += 1;
    }
    String::new()
}
