//! C01 / C16 / C17 — whole-layout properties observed on the implementation.
//!
//!  * C01: random histories of `TaffyTree` edits and passes on ONE long-lived tree; after every pass a fresh tree of the
//!    same final shape is laid out and every node compared (unrounded + `layout()`), in the real cache mode and, as a
//!    separate stream, in exact-key cache mode (hook H1). Discrepancies are attributed (lossy key / attach under a clean
//!    hidden node / new) and minimised.
//!  * C16: measure-function and body-evaluation counts (hook H3) on random mixes and single-child chains.
//!  * C17: `TaffyTree` against an independent Vec-backed tree that implements the public traits as documented, plus the
//!    memo clause (exact-key memo vs cache-free evaluation).
//!
//! Every case writes `obs <PROP> …` request lines that carry everything the Lean handler (Drv/Hist.lean) needs to
//! re-evaluate the predicate; the implementation answer is `ok` or `bad <sig>`.
#![allow(dead_code)]
use crate::common::*;
use crate::stylefmt::*;
use crate::treegen::*;
use std::cell::{Cell, RefCell};
use std::collections::{BTreeMap, HashMap};
use std::fmt::Write as _;
use taffy::prelude::*;
use taffy::verif_hooks as vh;
use taffy::{
    compute_block_layout, compute_cached_layout, compute_flexbox_layout, compute_grid_layout, compute_hidden_layout,
    compute_leaf_layout, compute_root_layout, round_layout, Cache, CacheTree, Layout, LayoutInput, LayoutOutput, RunMode,
};

// =========================================================================================================
// shared helpers

/// cache mode of a run (thread-local switches of hook H1)
#[derive(Clone, Copy, PartialEq, Eq, Debug)]
pub enum Mode {
    /// the real nine-slot cache
    Real,
    /// the real nine-slot cache with "quiet hits" (see `Quiet`)
    RealQuiet,
    /// entries matched on the complete `LayoutInput`, bitwise (one PerformLayout entry per node, as in the real cache)
    Exact,
    /// exact keys and "quiet hits": every store at a node drops the node's PerformLayout entry, so a PerformLayout hit
    /// never follows a body evaluation of that node
    Quiet,
}
impl Mode {
    fn name(self) -> &'static str {
        match self {
            Mode::Real => "real",
            Mode::RealQuiet => "realquiet",
            Mode::Exact => "exact",
            Mode::Quiet => "quiet",
        }
    }
}

std::thread_local! {
    /// neutraliser of known finding 13 (attach under a clean hidden node): after every op that attaches a child, mark
    /// every ancestor of the new parent dirty, one by one (`mark_dirty` itself stops at the first empty cache)
    static DIRTY_UP_AFTER_ATTACH: Cell<bool> = const { Cell::new(false) };
}

pub struct ModeGuard(bool, bool);
impl ModeGuard {
    pub fn set(m: Mode) -> Self {
        let prev = ModeGuard(vh::exact_key_mode(), vh::quiet_hit_mode());
        vh::set_exact_key_mode(matches!(m, Mode::Exact | Mode::Quiet));
        vh::set_quiet_hit_mode(matches!(m, Mode::RealQuiet | Mode::Quiet));
        prev
    }
}
impl Drop for ModeGuard {
    fn drop(&mut self) {
        vh::set_exact_key_mode(self.0);
        vh::set_quiet_hit_mode(self.1);
    }
}

fn layouts_tokens(ls: &[Layout]) -> String {
    let mut s = format!("L {}", ls.len());
    for l in ls {
        s.push(' ');
        s.push_str(&layout_line(l));
    }
    s
}

fn same_layouts(a: &[Layout], b: &[Layout]) -> bool {
    a.len() == b.len() && a.iter().zip(b).all(|(x, y)| layout_line(x) == layout_line(y))
}

/// indices at which two layout lists differ (canonical form: −0.0 → +0.0, NaN → one pattern); the flag says that
/// only the `order` field differs
fn diff_nodes(a: &[Layout], b: &[Layout]) -> Vec<(usize, bool)> {
    let mut v = vec![];
    for i in 0..a.len().max(b.len()) {
        match (a.get(i), b.get(i)) {
            (Some(x), Some(y)) => {
                let (lx, ly) = (layout_line(x), layout_line(y));
                if lx != ly {
                    let rest = |s: &str| s.split_once(' ').map(|p| p.1.to_string()).unwrap_or_default();
                    v.push((i, rest(&lx) == rest(&ly)));
                }
            }
            _ => v.push((i, false)),
        }
    }
    v
}

fn av_pair(a: Size<AvailableSpace>) -> String {
    format!("{} {}", av(a.width), av(a.height))
}

/// fields of a style that differ from the default, for human-readable witnesses
pub fn style_brief(s: &Style) -> String {
    let d = Style::DEFAULT;
    let mut v: Vec<String> = vec![];
    macro_rules! f {
        ($($name:ident),*) => { $( if s.$name != d.$name { v.push(format!("{}: {:?}", stringify!($name), s.$name)); } )* }
    }
    f!(
        display, item_is_table, item_is_replaced, box_sizing, overflow, scrollbar_width, position, inset, size, min_size,
        max_size, aspect_ratio, margin, padding, border, align_items, align_self, justify_items, justify_self,
        align_content, justify_content, gap, text_align, flex_direction, flex_wrap, flex_basis, flex_grow, flex_shrink,
        grid_template_rows, grid_template_columns, grid_auto_rows, grid_auto_columns, grid_auto_flow, grid_row, grid_column
    );
    let s = format!("{{{}}}", v.join(", "));
    pretty_lengths(&s)
}

/// CompactLength's Debug output shows the packed word; decode it (`12px`, `50%`, `auto`, `1fr`, …)
fn pretty_lengths(s: &str) -> String {
    let pat = "CompactLength(CompactLengthInner { tagged_ptr: 0x";
    let mut out = String::new();
    let mut rest = s;
    while let Some(i) = rest.find(pat) {
        out.push_str(&rest[..i]);
        let after = &rest[i + pat.len()..];
        let end = after.find(' ').unwrap_or(after.len());
        let word = u64::from_str_radix(&after[..end], 16).unwrap_or(0);
        let tag = word & 0xff;
        let val = f32::from_bits((word >> 32) as u32);
        out.push_str(&match tag {
            1 => format!("{val}px"),
            2 => format!("{}%", val * 100.0),
            3 => "auto".to_string(),
            4 => format!("{val}fr"),
            7 => "min-content".to_string(),
            15 => "max-content".to_string(),
            0x17 => format!("fit-content({val}px)"),
            0x1f => format!("fit-content({}%)", val * 100.0),
            _ => format!("raw:{word:x}"),
        });
        // skip " })" and the closing parenthesis of the wrapper
        let close = after.find("})").map(|k| k + 2).unwrap_or(end);
        rest = &after[close..];
    }
    out.push_str(rest);
    for w in ["LengthPercentageAuto(", "LengthPercentage(", "Dimension(", "MinTrackSizingFunction(", "MaxTrackSizingFunction("] {
        // wrappers: `Dimension(12px)` → `12px`
        while let Some(i) = out.find(w) {
            let after = i + w.len();
            if let Some(j) = out[after..].find(')') {
                out.replace_range(after + j..after + j + 1, "");
            }
            out.replace_range(i..after, "");
        }
    }
    out
}

/// one-field-at-a-time simplifications used by the shrinker
fn style_resets() -> Vec<fn(&mut Style)> {
    macro_rules! r {
        ($($name:ident),*) => { vec![ $( (|s: &mut Style| s.$name = Style::DEFAULT.$name) as fn(&mut Style) ),* ] }
    }
    r!(
        item_is_table, item_is_replaced, box_sizing, overflow, scrollbar_width, position, inset, size, min_size, max_size,
        aspect_ratio, margin, padding, border, align_items, align_self, justify_items, justify_self, align_content,
        justify_content, gap, text_align, flex_direction, flex_wrap, flex_basis, flex_grow, flex_shrink, grid_template_rows,
        grid_template_columns, grid_auto_rows, grid_auto_columns, grid_auto_flow, grid_row, grid_column
    )
}

fn ctx_brief(c: &Option<Ctx>) -> String {
    match c {
        None => "-".into(),
        Some(Ctx::Fixed(w, h)) => format!("Fixed({w},{h})"),
        Some(Ctx::Wrap(w, h)) => format!("Wrap({w},{h})"),
    }
}

fn avail_brief(a: Size<AvailableSpace>) -> String {
    let one = |x: AvailableSpace| match x {
        AvailableSpace::MinContent => "min".to_string(),
        AvailableSpace::MaxContent => "max".to_string(),
        AvailableSpace::Definite(v) => format!("{v}"),
    };
    format!("({}, {})", one(a.width), one(a.height))
}

fn layout_brief(l: &Layout) -> String {
    format!(
        "[ord {} loc ({},{}) size {}x{} content {}x{} pad {:?} border {:?} margin {:?} sb {}x{}]",
        l.order,
        l.location.x,
        l.location.y,
        l.size.width,
        l.size.height,
        l.content_size.width,
        l.content_size.height,
        (l.padding.left, l.padding.right, l.padding.top, l.padding.bottom),
        (l.border.left, l.border.right, l.border.top, l.border.bottom),
        (l.margin.left, l.margin.right, l.margin.top, l.margin.bottom),
        l.scrollbar_size.width,
        l.scrollbar_size.height
    )
}

// =========================================================================================================
// C01 — histories

/// a node of a newly created tree, named by a stable index (so that ops can be dropped by the shrinker)
#[derive(Clone, Debug)]
struct FNode {
    idx: usize,
    style: Style,
    ctx: Option<Ctx>,
    kids: Vec<usize>,
}

#[derive(Clone, Debug)]
enum Op {
    /// create the nodes (first = root of the new, detached tree)
    NewTree(Vec<FNode>),
    SetStyle(usize, Style),
    SetCtx(usize, Option<Ctx>),
    AddChild(usize, usize),
    InsertChild(usize, usize, usize),
    ReplaceChild(usize, usize, usize),
    RemoveChildAt(usize, usize),
    RemoveRange(usize, usize, usize),
    SetChildren(usize, Vec<usize>),
    Remove(usize),
    MarkDirty(usize),
    Rounding(bool),
    Compute(usize, Size<AvailableSpace>),
}

impl Op {
    fn kind(&self) -> &'static str {
        match self {
            Op::NewTree(_) => "new_tree",
            Op::SetStyle(..) => "set_style",
            Op::SetCtx(..) => "set_node_context",
            Op::AddChild(..) => "add_child",
            Op::InsertChild(..) => "insert_child_at_index",
            Op::ReplaceChild(..) => "replace_child_at_index",
            Op::RemoveChildAt(..) => "remove_child_at_index",
            Op::RemoveRange(..) => "remove_children_range",
            Op::SetChildren(..) => "set_children",
            Op::Remove(_) => "remove",
            Op::MarkDirty(_) => "mark_dirty",
            Op::Rounding(true) => "enable_rounding",
            Op::Rounding(false) => "disable_rounding",
            Op::Compute(..) => "compute_layout",
        }
    }
    fn structural(&self) -> bool {
        matches!(
            self,
            Op::AddChild(..)
                | Op::InsertChild(..)
                | Op::ReplaceChild(..)
                | Op::RemoveChildAt(..)
                | Op::RemoveRange(..)
                | Op::SetChildren(..)
                | Op::Remove(_)
        )
    }
    fn brief(&self) -> String {
        match self {
            Op::NewTree(ns) => {
                let parts: Vec<String> =
                    ns.iter().map(|n| format!("n{} {} ctx {} kids {:?}", n.idx, style_brief(&n.style), ctx_brief(&n.ctx), n.kids)).collect();
                format!("new_tree[{}]", parts.join("; "))
            }
            Op::SetStyle(n, s) => format!("set_style(n{n}, {})", style_brief(s)),
            Op::SetCtx(n, c) => format!("set_node_context(n{n}, {})", ctx_brief(c)),
            Op::AddChild(p, c) => format!("add_child(n{p}, n{c})"),
            Op::InsertChild(p, i, c) => format!("insert_child_at_index(n{p}, {i}, n{c})"),
            Op::ReplaceChild(p, i, c) => format!("replace_child_at_index(n{p}, {i}, n{c})"),
            Op::RemoveChildAt(p, i) => format!("remove_child_at_index(n{p}, {i})"),
            Op::RemoveRange(p, a, b) => format!("remove_children_range(n{p}, {a}..{b})"),
            Op::SetChildren(p, cs) => format!("set_children(n{p}, {cs:?})"),
            Op::Remove(n) => format!("remove(n{n})"),
            Op::MarkDirty(n) => format!("mark_dirty(n{n})"),
            Op::Rounding(b) => (if *b { "enable_rounding()" } else { "disable_rounding()" }).to_string(),
            Op::Compute(r, a) => format!("compute_layout(n{r}, {})", avail_brief(*a)),
        }
    }
}

fn history_brief(ops: &[Op]) -> String {
    ops.iter().map(|o| o.brief()).collect::<Vec<_>>().join(" ;; ")
}

fn flatten(d: &TreeDesc, next: &mut usize, out: &mut Vec<FNode>) -> usize {
    let idx = *next;
    *next += 1;
    let pos = out.len();
    out.push(FNode { idx, style: d.style.clone(), ctx: d.ctx, kids: vec![] });
    for c in &d.children {
        let k = flatten(c, next, out);
        out[pos].kids.push(k);
    }
    idx
}

#[derive(Clone)]
struct MNode {
    style: Style,
    ctx: Option<Ctx>,
    kids: Vec<usize>,
    parent: Option<usize>,
}

/// the mirror: what the live tree is supposed to be
#[derive(Clone)]
struct Mirror {
    nodes: Vec<Option<MNode>>,
    rounding: bool,
}

impl Mirror {
    fn new() -> Self {
        Mirror { nodes: vec![], rounding: true }
    }
    fn alive(&self, i: usize) -> bool {
        self.nodes.get(i).map_or(false, |n| n.is_some())
    }
    fn n(&self, i: usize) -> &MNode {
        self.nodes[i].as_ref().unwrap()
    }
    fn nm(&mut self, i: usize) -> &mut MNode {
        self.nodes[i].as_mut().unwrap()
    }
    fn alive_nodes(&self) -> Vec<usize> {
        (0..self.nodes.len()).filter(|&i| self.alive(i)).collect()
    }
    fn roots(&self) -> Vec<usize> {
        self.alive_nodes().into_iter().filter(|&i| self.n(i).parent.is_none()).collect()
    }
    fn in_subtree(&self, root: usize, x: usize) -> bool {
        root == x || self.n(root).kids.iter().any(|&k| self.in_subtree(k, x))
    }
    fn preorder(&self, root: usize, out: &mut Vec<usize>) {
        out.push(root);
        for &k in &self.n(root).kids {
            self.preorder(k, out);
        }
    }
    fn desc(&self, root: usize) -> TreeDesc {
        let n = self.n(root);
        TreeDesc { style: n.style.clone(), ctx: n.ctx, children: n.kids.iter().map(|&k| self.desc(k)).collect() }
    }
    /// preorder flags "at or below a display:none node"
    /// for every node in preorder: does it have a display:none PROPER ancestor
    fn below_hidden_mask(&self, root: usize, above: bool, out: &mut Vec<bool>) {
        out.push(above);
        let h = above || self.n(root).style.display == Display::None;
        for &k in &self.n(root).kids {
            self.below_hidden_mask(k, h, out);
        }
    }
    fn hidden_mask(&self, root: usize, above: bool, out: &mut Vec<bool>) {
        let h = above || self.n(root).style.display == Display::None;
        out.push(h);
        for &k in &self.n(root).kids {
            self.hidden_mask(k, h, out);
        }
    }
    /// the property's precondition, evaluated on the mirror (ops invalidated by the shrinker are skipped)
    fn valid(&self, op: &Op) -> bool {
        let attachable = |p: usize, c: usize| self.alive(p) && self.alive(c) && self.n(c).parent.is_none() && !self.in_subtree(c, p);
        match op {
            Op::NewTree(ns) => {
                !ns.is_empty()
                    && ns.iter().all(|n| !self.alive(n.idx))
                    && ns.iter().all(|n| n.kids.iter().all(|k| ns.iter().any(|m| m.idx == *k)))
            }
            Op::SetStyle(n, _) | Op::SetCtx(n, _) | Op::MarkDirty(n) | Op::Remove(n) => self.alive(*n),
            Op::AddChild(p, c) => attachable(*p, *c),
            Op::InsertChild(p, i, c) => attachable(*p, *c) && *i <= self.n(*p).kids.len(),
            Op::ReplaceChild(p, i, c) => attachable(*p, *c) && *i < self.n(*p).kids.len(),
            Op::RemoveChildAt(p, i) => self.alive(*p) && *i < self.n(*p).kids.len(),
            Op::RemoveRange(p, a, b) => self.alive(*p) && a <= b && *b <= self.n(*p).kids.len(),
            Op::SetChildren(p, cs) => {
                self.alive(*p)
                    && cs.iter().all(|c| self.alive(*c) && !self.in_subtree(*c, *p))
                    && (0..cs.len()).all(|i| !cs[..i].contains(&cs[i]))
            }
            Op::Rounding(_) => true,
            Op::Compute(r, _) => self.alive(*r) && self.n(*r).parent.is_none(),
        }
    }
    fn apply(&mut self, op: &Op) {
        match op {
            Op::NewTree(ns) => {
                for n in ns {
                    if self.nodes.len() <= n.idx {
                        self.nodes.resize(n.idx + 1, None);
                    }
                    self.nodes[n.idx] = Some(MNode { style: n.style.clone(), ctx: n.ctx, kids: n.kids.clone(), parent: None });
                }
                for n in ns {
                    for k in &n.kids {
                        self.nm(*k).parent = Some(n.idx);
                    }
                }
            }
            Op::SetStyle(n, s) => self.nm(*n).style = s.clone(),
            Op::SetCtx(n, c) => self.nm(*n).ctx = *c,
            Op::AddChild(p, c) => {
                self.nm(*p).kids.push(*c);
                self.nm(*c).parent = Some(*p);
            }
            Op::InsertChild(p, i, c) => {
                self.nm(*p).kids.insert(*i, *c);
                self.nm(*c).parent = Some(*p);
            }
            Op::ReplaceChild(p, i, c) => {
                let old = self.n(*p).kids[*i];
                self.nm(*p).kids[*i] = *c;
                self.nm(old).parent = None;
                self.nm(*c).parent = Some(*p);
            }
            Op::RemoveChildAt(p, i) => {
                let c = self.nm(*p).kids.remove(*i);
                self.nm(c).parent = None;
            }
            Op::RemoveRange(p, a, b) => {
                let cs: Vec<usize> = self.nm(*p).kids.drain(*a..*b).collect();
                for c in cs {
                    self.nm(c).parent = None;
                }
            }
            Op::SetChildren(p, cs) => {
                let old = std::mem::take(&mut self.nm(*p).kids);
                for c in old {
                    self.nm(c).parent = None;
                }
                for &c in cs {
                    if let Some(q) = self.n(c).parent {
                        self.nm(q).kids.retain(|x| *x != c);
                    }
                    self.nm(c).parent = Some(*p);
                }
                self.nm(*p).kids = cs.clone();
            }
            Op::Remove(n) => {
                if let Some(p) = self.n(*n).parent {
                    self.nm(p).kids.retain(|x| x != n);
                }
                let ks = std::mem::take(&mut self.nm(*n).kids);
                for c in ks {
                    self.nm(c).parent = None;
                }
                self.nodes[*n] = None;
            }
            Op::MarkDirty(_) => {}
            Op::Rounding(b) => self.rounding = *b,
            Op::Compute(..) => {}
        }
    }
}

/// what one pass showed
#[derive(Clone)]
struct PassObs {
    op_index: usize,
    root: usize,
    avail: Size<AvailableSpace>,
    rounding: bool,
    desc: TreeDesc,
    pre: Vec<usize>,
    hidden: Vec<bool>,
    /// has a display:none proper ancestor
    below_hidden: Vec<bool>,
    inc: Result<(Vec<Layout>, Vec<Layout>), String>,
    fresh: Result<(Vec<Layout>, Vec<Layout>), String>,
    /// real-mode runs only: cache hits of this pass that no earlier evaluation of the node justifies under the matching rule
    /// of cache.rs (C02's `get_sound`, evaluated on the query trace of hook H3); first one described
    unjustified_hits: u64,
    unjustified_first: Option<String>,
}

/// what differs between incremental and fresh at one pass
#[derive(Clone, Default, Debug)]
struct Diff {
    /// a panic on exactly one side
    one_sided_panic: bool,
    /// differences at box-generating nodes (not at or below display:none)
    visible: Vec<usize>,
    /// differences at or below display:none nodes, other than order-only
    hidden: Vec<usize>,
    /// only `Layout::order` differs, at or below a display:none node
    hidden_order: Vec<usize>,
}
impl Diff {
    fn none(&self) -> bool {
        !self.one_sided_panic && self.visible.is_empty() && self.hidden.is_empty() && self.hidden_order.is_empty()
    }
}

impl PassObs {
    fn diff(&self) -> Diff {
        match (&self.inc, &self.fresh) {
            (Ok(a), Ok(b)) => {
                let mut d = Diff::default();
                let du = diff_nodes(&a.0, &b.0);
                let df = diff_nodes(&a.1, &b.1);
                for i in 0..a.0.len().max(b.0.len()) {
                    let u = du.iter().find(|x| x.0 == i);
                    let f = df.iter().find(|x| x.0 == i);
                    if u.is_none() && f.is_none() {
                        continue;
                    }
                    let order_only = u.map_or(true, |x| x.1) && f.map_or(true, |x| x.1);
                    let hid = self.hidden.get(i).copied().unwrap_or(false);
                    let below = self.below_hidden.get(i).copied().unwrap_or(false);
                    if !hid {
                        d.visible.push(i);
                    } else if order_only && !below {
                        // a display:none child of a box-generating container: its order is written by that container
                        // (repaired defect 452a387: it used to depend on the cache state)
                        d.hidden_order.push(i);
                    } else {
                        // strictly below a display:none node nothing is laid out again unless the hidden layout recursion
                        // runs: a stale `order` there is the same effect as any other stale field (attach under a clean hidden node)
                        d.hidden.push(i);
                    }
                }
                d
            }
            (Err(_), Err(_)) => Diff::default(),
            _ => Diff { one_sided_panic: true, ..Diff::default() },
        }
    }
    fn equal(&self) -> bool {
        self.diff().none()
    }
}

#[derive(Clone)]
enum Step {
    Skipped,
    Applied,
    Pass(PassObs),
}

struct Live {
    t: TaffyTree<Ctx>,
    ids: Vec<Option<NodeId>>,
    m: Mirror,
    /// every evaluation (trace Miss) seen so far per node: what the node's cache can legitimately hold (a superset: clears are ignored)
    stored: HashMap<NodeId, Vec<(LayoutInput, LayoutOutput)>>,
}

fn roughly_equal(a: AvailableSpace, b: AvailableSpace) -> bool {
    match (a, b) {
        (AvailableSpace::Definite(x), AvailableSpace::Definite(y)) => (x - y).abs() < f32::EPSILON,
        (AvailableSpace::MinContent, AvailableSpace::MinContent) | (AvailableSpace::MaxContent, AvailableSpace::MaxContent) => true,
        _ => false,
    }
}

/// the matching rule of `Cache::get` (cache.rs): may entry (e, out) answer query q?
fn entry_justifies(e: &LayoutInput, out: &LayoutOutput, q: &LayoutInput, answer: &LayoutOutput) -> bool {
    let s = out.size;
    e.run_mode == q.run_mode
        && (q.known_dimensions.width == e.known_dimensions.width || q.known_dimensions.width == Some(s.width))
        && (q.known_dimensions.height == e.known_dimensions.height || q.known_dimensions.height == Some(s.height))
        && (q.known_dimensions.width.is_some() || roughly_equal(e.available_space.width, q.available_space.width))
        && (q.known_dimensions.height.is_some() || roughly_equal(e.available_space.height, q.available_space.height))
        && hx(answer.size.width) == hx(s.width)
        && hx(answer.size.height) == hx(s.height)
}

/// `entry_justifies` without the answer: could entry (e, out) answer query q under `Cache::get`'s rule?
fn entry_compatible(e: &LayoutInput, out: &LayoutOutput, q: &LayoutInput) -> bool {
    let s = out.size;
    e.run_mode == q.run_mode
        && (q.known_dimensions.width == e.known_dimensions.width || q.known_dimensions.width == Some(s.width))
        && (q.known_dimensions.height == e.known_dimensions.height || q.known_dimensions.height == Some(s.height))
        && (q.known_dimensions.width.is_some() || roughly_equal(e.available_space.width, q.available_space.width))
        && (q.known_dimensions.height.is_some() || roughly_equal(e.available_space.height, q.available_space.height))
}

impl Live {
    fn new() -> Self {
        Live { t: TaffyTree::new(), ids: vec![], m: Mirror::new(), stored: HashMap::new() }
    }
    fn id(&self, i: usize) -> NodeId {
        self.ids[i].unwrap()
    }
    fn apply_tree(&mut self, op: &Op) {
        match op {
            Op::NewTree(ns) => {
                for n in ns {
                    let id = match n.ctx {
                        Some(c) => self.t.new_leaf_with_context(n.style.clone(), c).unwrap(),
                        None => self.t.new_leaf(n.style.clone()).unwrap(),
                    };
                    if self.ids.len() <= n.idx {
                        self.ids.resize(n.idx + 1, None);
                    }
                    self.ids[n.idx] = Some(id);
                }
                for n in ns {
                    if !n.kids.is_empty() {
                        let ks: Vec<NodeId> = n.kids.iter().map(|k| self.id(*k)).collect();
                        self.t.set_children(self.id(n.idx), &ks).unwrap();
                    }
                }
            }
            Op::SetStyle(n, s) => self.t.set_style(self.id(*n), s.clone()).unwrap(),
            Op::SetCtx(n, c) => self.t.set_node_context(self.id(*n), *c).unwrap(),
            Op::AddChild(p, c) => self.t.add_child(self.id(*p), self.id(*c)).unwrap(),
            Op::InsertChild(p, i, c) => self.t.insert_child_at_index(self.id(*p), *i, self.id(*c)).unwrap(),
            Op::ReplaceChild(p, i, c) => {
                self.t.replace_child_at_index(self.id(*p), *i, self.id(*c)).unwrap();
            }
            Op::RemoveChildAt(p, i) => {
                self.t.remove_child_at_index(self.id(*p), *i).unwrap();
            }
            Op::RemoveRange(p, a, b) => self.t.remove_children_range(self.id(*p), *a..*b).unwrap(),
            Op::SetChildren(p, cs) => {
                let ks: Vec<NodeId> = cs.iter().map(|k| self.id(*k)).collect();
                self.t.set_children(self.id(*p), &ks).unwrap();
            }
            Op::Remove(n) => {
                self.t.remove(self.id(*n)).unwrap();
                self.ids[*n] = None;
            }
            Op::MarkDirty(n) => self.t.mark_dirty(self.id(*n)).unwrap(),
            Op::Rounding(true) => self.t.enable_rounding(),
            Op::Rounding(false) => self.t.disable_rounding(),
            Op::Compute(..) => unreachable!(),
        }
    }
}

/// run a history on one long-lived tree; after every pass lay out a fresh tree built from the mirror.
/// The cache mode applies to both the incremental and the fresh tree, from the start.
fn run_history(ops: &[Op], mode: Mode) -> Vec<Step> {
    let _g = ModeGuard::set(mode);
    let mut live = Live::new();
    let mut steps = Vec::with_capacity(ops.len());
    let mut dead = false; // the incremental tree panicked: its state is undefined from here on
    for (oi, op) in ops.iter().enumerate() {
        if dead || !live.m.valid(op) {
            steps.push(Step::Skipped);
            continue;
        }
        match op {
            Op::Compute(root, avail) => {
                let rid = live.id(*root);
                let t = &mut live.t;
                if mode == Mode::Real {
                    vh::trace_start();
                }
                let r = catch(|| {
                    t.compute_layout_with_measure(rid, *avail, |k, a, _id, ctx, _st| measure(k, a, ctx)).unwrap();
                });
                let mut unjustified_hits = 0u64;
                let mut unjustified_first = None;
                if mode == Mode::Real {
                    for ev in vh::trace_take() {
                        match ev.kind {
                            vh::QueryKind::Miss => live.stored.entry(ev.node).or_default().push((ev.input, ev.output)),
                            vh::QueryKind::Hit => {
                                let ok = live.stored.get(&ev.node).map_or(false, |v| v.iter().any(|(e, o)| entry_justifies(e, o, &ev.input, &ev.output)));
                                if !ok {
                                    unjustified_hits += 1;
                                    if unjustified_first.is_none() {
                                        let ids = live.ids.clone();
                                        let name = move |n: NodeId| ids.iter().position(|x| *x == Some(n)).map_or("?".to_string(), |i| format!("n{i}"));
                                        unjustified_first = Some(trace_brief(&ev, &name).trim().to_string());
                                    }
                                }
                            }
                            vh::QueryKind::Hidden => {}
                        }
                    }
                }
                let mut pre = vec![];
                live.m.preorder(*root, &mut pre);
                let inc = match r {
                    Ok(()) => Ok((
                        pre.iter().map(|&i| *live.t.unrounded_layout(live.id(i))).collect::<Vec<_>>(),
                        pre.iter().map(|&i| *live.t.layout(live.id(i)).unwrap()).collect::<Vec<_>>(),
                    )),
                    Err(e) => {
                        dead = true;
                        Err(e)
                    }
                };
                let desc = live.m.desc(*root);
                let fresh = layout_fresh(&desc, *avail, live.m.rounding).map(|(ft, fr)| (all_layouts(&ft, fr, true), all_layouts(&ft, fr, false)));
                let mut hidden = vec![];
                live.m.hidden_mask(*root, false, &mut hidden);
                let mut below_hidden = vec![];
                live.m.below_hidden_mask(*root, false, &mut below_hidden);
                steps.push(Step::Pass(PassObs { op_index: oi, root: *root, avail: *avail, rounding: live.m.rounding, desc, pre, hidden, below_hidden, inc, fresh, unjustified_hits, unjustified_first }));
            }
            _ => {
                let r = catch(|| {
                    live.apply_tree(op);
                    if DIRTY_UP_AFTER_ATTACH.with(|f| f.get()) {
                        let p = match op {
                            Op::AddChild(p, _) | Op::InsertChild(p, _, _) | Op::ReplaceChild(p, _, _) | Op::SetChildren(p, _) => Some(*p),
                            _ => None,
                        };
                        let mut cur = p.map(|p| live.id(p));
                        while let Some(n) = cur {
                            live.t.mark_dirty(n).unwrap();
                            cur = live.t.parent(n);
                        }
                    }
                });
                live.m.apply(op);
                if r.is_err() {
                    dead = true;
                }
                steps.push(Step::Applied);
            }
        }
    }
    steps
}

#[derive(Clone, Copy, PartialEq, Eq, Debug, PartialOrd, Ord)]
enum Class {
    /// survives exact keys + quiet hits at a box-generating node: new
    New,
    /// exactly one of incremental / fresh panicked
    PanicOneSide,
    /// differs with exact keys, equal with quiet hits: a body evaluation (ComputeSize) between a PerformLayout store and a
    /// hit on it left other layouts below the node (DESIGN §8 C01 `HitAfterQuiet`)
    Stale,
    /// survives every neutraliser, only at or below display:none nodes: §9 item 13
    Hidden,
    /// survives every neutraliser, only `Layout::order` of display:none nodes
    HiddenOrder,
    /// disappears in exact-key mode: DESIGN §9 item 12
    Lossy,
}

impl Class {
    fn sig(self) -> &'static str {
        match self {
            Class::Lossy => "c01-lossy-cache-key",
            Class::Stale => "c01-stale-layout-after-compute-size",
            Class::Hidden => "c01-attach-under-clean-hidden",
            Class::HiddenOrder => "c01-hidden-child-order",
            Class::New => "c01-history-dependent",
            Class::PanicOneSide => "c01-panic-one-side",
        }
    }
}

fn passes(steps: &[Step]) -> Vec<&PassObs> {
    steps.iter().filter_map(|s| if let Step::Pass(p) = s { Some(p) } else { None }).collect()
}

/// attribution of one pass by the neutralisers: quiet hits (with the real keys), exact keys, both.
/// `from` = the mode of the stream being judged. `d` = the pass' differences in the four modes (MODES order).
/// Returns the classes present, most severe first (empty = equal).
fn classify(from: Mode, d: [Option<&Diff>; 4]) -> Vec<Class> {
    let mut out = vec![];
    let empty = Diff::default();
    let [r, rq, e, q] = d.map(|x| x.unwrap_or(&empty));
    let own = match from {
        Mode::Real => r,
        Mode::RealQuiet => rq,
        Mode::Exact => e,
        Mode::Quiet => q,
    };
    if own.none() {
        return out;
    }
    if own.one_sided_panic || q.one_sided_panic {
        out.push(Class::PanicOneSide);
    }
    // what survives every neutraliser
    if !q.visible.is_empty() {
        out.push(Class::New);
    }
    if !q.hidden.is_empty() {
        out.push(Class::Hidden);
    }
    // the order-only effect depends on the hit/miss pattern of the mode itself: judged on the stream's own difference
    if !own.hidden_order.is_empty() || !q.hidden_order.is_empty() {
        out.push(Class::HiddenOrder);
    }
    // a → b removes the difference at box-generating nodes, or the (non-order) difference at hidden nodes
    let fixed = |a: &Diff, b: &Diff| (!a.visible.is_empty() && b.visible.is_empty()) || (!a.hidden.is_empty() && b.hidden.is_empty());
    match from {
        Mode::Real => {
            if fixed(r, rq) || fixed(e, q) {
                out.push(Class::Stale);
            }
            if fixed(rq, q) || (fixed(r, e) && !fixed(r, rq)) {
                out.push(Class::Lossy);
            }
        }
        Mode::RealQuiet => {
            if fixed(rq, q) {
                out.push(Class::Lossy);
            }
        }
        Mode::Exact => {
            if fixed(e, q) {
                out.push(Class::Stale);
            }
        }
        Mode::Quiet => {}
    }
    if out.is_empty() {
        // cannot happen (every non-empty difference is covered above); never let a difference pass as attributed
        out.push(Class::New);
    }
    out.sort();
    out.dedup();
    out
}

struct HistResult {
    runs: [Vec<Step>; 4],
    /// per mode, per pass of that run: classes present (empty = equal)
    classes: [Vec<Vec<Class>>; 4],
}

const MODES: [Mode; 4] = [Mode::Real, Mode::RealQuiet, Mode::Exact, Mode::Quiet];

impl HistResult {
    fn any(&self, mode: usize, c: Class) -> bool {
        self.classes[mode].iter().any(|cs| cs.contains(&c))
    }
    fn any_mode(&self, c: Class) -> bool {
        (0..4).any(|m| self.any(m, c))
    }
    fn first_pass(&self, mode: usize, c: Class) -> Option<&PassObs> {
        let ps = passes(&self.runs[mode]);
        self.classes[mode].iter().position(|cs| cs.contains(&c)).map(|i| ps[i])
    }
}

fn run_all(ops: &[Op]) -> HistResult {
    let runs = [run_history(ops, Mode::Real), run_history(ops, Mode::RealQuiet), run_history(ops, Mode::Exact), run_history(ops, Mode::Quiet)];
    let ps: Vec<Vec<&PassObs>> = runs.iter().map(|r| passes(r)).collect();
    let diffs: Vec<Vec<(usize, Diff)>> = ps.iter().map(|v| v.iter().map(|p| (p.op_index, p.diff())).collect()).collect();
    let find = |m: usize, oi: usize| diffs[m].iter().find(|x| x.0 == oi).map(|x| &x.1);
    let mut classes: [Vec<Vec<Class>>; 4] = [vec![], vec![], vec![], vec![]];
    for (mi, mode) in MODES.iter().enumerate() {
        for (oi, _) in &diffs[mi] {
            classes[mi].push(classify(*mode, [find(0, *oi), find(1, *oi), find(2, *oi), find(3, *oi)]));
        }
    }
    drop(ps);
    // finding 13 is "attached below a hidden and clean node": a difference at or below display:none nodes that survives
    // the cache-mode neutralisers is attributed to it only if it disappears when the new parent's ancestors are marked
    // dirty after each attach; otherwise it is new
    if classes.iter().any(|m| m.iter().any(|cs| cs.contains(&Class::Hidden))) {
        DIRTY_UP_AFTER_ATTACH.with(|f| f.set(true));
        let up = run_history(ops, Mode::Quiet);
        DIRTY_UP_AFTER_ATTACH.with(|f| f.set(false));
        let updiffs: Vec<(usize, Diff)> = passes(&up).iter().map(|p| (p.op_index, p.diff())).collect();
        for mi in 0..4 {
            let ois: Vec<usize> = diffs[mi].iter().map(|x| x.0).collect();
            for (k, cs) in classes[mi].iter_mut().enumerate() {
                if cs.contains(&Class::Hidden) {
                    let neutralised = updiffs.iter().find(|x| x.0 == ois[k]).map_or(false, |x| x.1.hidden.is_empty() && x.1.visible.is_empty() && !x.1.one_sided_panic);
                    if !neutralised {
                        for c in cs.iter_mut() {
                            if *c == Class::Hidden {
                                *c = Class::New;
                            }
                        }
                        cs.sort();
                        cs.dedup();
                    }
                }
            }
        }
    }
    HistResult { runs, classes }
}

/// greedy minimisation of a history while `fails` holds: drop ops (end → start), drop subtrees of created trees,
/// reset style fields, drop contexts; repeated to a fixpoint. Ops that became invalid are dropped at the end.
fn shrink(mut ops: Vec<Op>, fails: &dyn Fn(&[Op]) -> bool, max_rounds: usize) -> Vec<Op> {
    if !fails(&ops) {
        return ops;
    }
    for _ in 0..max_rounds {
        let mut changed = false;
        // 1. drop single ops
        let mut i = ops.len();
        while i > 0 {
            i -= 1;
            let mut c = ops.clone();
            c.remove(i);
            if fails(&c) {
                ops = c;
                changed = true;
            }
        }
        // 2. drop subtrees of created trees
        for oi in 0..ops.len() {
            let mut k = 1;
            loop {
                let ns = match &ops[oi] {
                    Op::NewTree(ns) => ns.clone(),
                    _ => break,
                };
                if k >= ns.len() {
                    break;
                }
                // remove node ns[k] with all its descendants
                let mut gone = vec![ns[k].idx];
                let mut j = 0;
                while j < gone.len() {
                    let g = gone[j];
                    if let Some(n) = ns.iter().find(|n| n.idx == g) {
                        gone.extend(n.kids.iter().copied());
                    }
                    j += 1;
                }
                let mut ns2: Vec<FNode> = ns.iter().filter(|n| !gone.contains(&n.idx)).cloned().collect();
                for n in &mut ns2 {
                    n.kids.retain(|x| !gone.contains(x));
                }
                let mut c = ops.clone();
                c[oi] = Op::NewTree(ns2);
                if fails(&c) {
                    ops = c;
                    changed = true;
                } else {
                    k += 1;
                }
            }
        }
        // 3. simplify styles and contexts
        let resets = style_resets();
        for oi in 0..ops.len() {
            let nstyles = match &ops[oi] {
                Op::NewTree(ns) => ns.len(),
                Op::SetStyle(..) => 1,
                _ => 0,
            };
            for si in 0..nstyles {
                for rs in &resets {
                    let mut c = ops.clone();
                    let st = match &mut c[oi] {
                        Op::NewTree(ns) => &mut ns[si].style,
                        Op::SetStyle(_, s) => s,
                        _ => unreachable!(),
                    };
                    let before = st.clone();
                    rs(st);
                    if *st == before {
                        continue;
                    }
                    if fails(&c) {
                        ops = c;
                        changed = true;
                    }
                }
                if let Op::NewTree(ns) = &ops[oi] {
                    if ns[si].ctx.is_some() {
                        let mut c = ops.clone();
                        if let Op::NewTree(ns) = &mut c[oi] {
                            ns[si].ctx = None;
                        }
                        if fails(&c) {
                            ops = c;
                            changed = true;
                        }
                    }
                }
            }
        }
        if !changed {
            break;
        }
    }
    // drop ops that are skipped anyway
    let steps = run_history(&ops, Mode::Real);
    let kept: Vec<Op> = ops.iter().zip(steps.iter()).filter(|(_, s)| !matches!(s, Step::Skipped)).map(|(o, _)| o.clone()).collect();
    if fails(&kept) {
        kept
    } else {
        ops
    }
}

// ---------------------------------------------------------------------------------------------------------
// history generation (on the mirror only)

struct HGen {
    m: Mirror,
    ops: Vec<Op>,
    next: usize,
    cfg: GenCfg,
}

impl HGen {
    fn new() -> Self {
        let mut cfg = GenCfg::all();
        cfg.max_nodes = 8;
        HGen { m: Mirror::new(), ops: vec![], next: 0, cfg }
    }
    fn push(&mut self, op: Op) -> bool {
        if !self.m.valid(&op) {
            return false;
        }
        self.m.apply(&op);
        self.ops.push(op);
        true
    }
    fn new_tree(&mut self, r: &mut Rng, max_nodes: usize) -> usize {
        let mut c = self.cfg.clone();
        c.max_nodes = max_nodes;
        let d = gen_tree(r, &c);
        let mut ns = vec![];
        let root = flatten(&d, &mut self.next, &mut ns);
        self.push(Op::NewTree(ns));
        root
    }
    fn attach(&mut self, r: &mut Rng, p: usize, c: usize) -> bool {
        let len = self.m.n(p).kids.len();
        match r.below(3) {
            0 => self.push(Op::AddChild(p, c)),
            1 => self.push(Op::InsertChild(p, r.below(len + 1), c)),
            _ => {
                if len == 0 {
                    self.push(Op::AddChild(p, c))
                } else {
                    self.push(Op::ReplaceChild(p, r.below(len), c))
                }
            }
        }
    }
}

fn gen_history(r: &mut Rng) -> Vec<Op> {
    let mut g = HGen::new();
    let main = g.new_tree(r, 8);
    let avs = [gen_available(r), gen_available(r)];
    let mut last_av = avs[0];
    let mut alt = 0usize;
    if r.chance(5, 6) {
        g.push(Op::Compute(main, last_av));
    }
    let target = 5 + r.below(21);
    let mut guard = 0;
    while g.ops.len() < target && guard < 200 {
        guard += 1;
        let alive = g.m.alive_nodes();
        if alive.is_empty() {
            g.new_tree(r, 6);
            continue;
        }
        match r.below(22) {
            0..=2 => {
                let n = *r.pick(&alive);
                let cur = g.m.n(n).style.clone();
                let st = match r.below(5) {
                    0 => cur,
                    1 => {
                        let mut s = cur;
                        s.display = if s.display == Display::None { *r.pick(&[Display::Block, Display::Flex, Display::Grid]) } else { Display::None };
                        s
                    }
                    _ => gen_style(r, &g.cfg, g.m.n(n).kids.is_empty(), g.m.n(n).parent.is_none()),
                };
                g.push(Op::SetStyle(n, st));
            }
            3 => {
                let leaves: Vec<usize> = alive.iter().copied().filter(|&i| g.m.n(i).kids.is_empty()).collect();
                let n = if !leaves.is_empty() && r.chance(3, 4) { *r.pick(&leaves) } else { *r.pick(&alive) };
                let c = gen_ctx(r, &g.cfg);
                g.push(Op::SetCtx(n, c));
            }
            4 | 5 => {
                let p = *r.pick(&alive);
                let c = g.new_tree(r, 4);
                g.attach(r, p, c);
            }
            6 => {
                let det = g.m.roots();
                let c = *r.pick(&det);
                let cands: Vec<usize> = alive.iter().copied().filter(|&p| !g.m.in_subtree(c, p)).collect();
                if !cands.is_empty() {
                    let p = *r.pick(&cands);
                    g.attach(r, p, c);
                }
            }
            7 => {
                let ps: Vec<usize> = alive.iter().copied().filter(|&p| !g.m.n(p).kids.is_empty()).collect();
                if !ps.is_empty() {
                    let p = *r.pick(&ps);
                    let i = r.below(g.m.n(p).kids.len());
                    g.push(Op::RemoveChildAt(p, i));
                }
            }
            8 => {
                let ps: Vec<usize> = alive.iter().copied().filter(|&p| !g.m.n(p).kids.is_empty()).collect();
                if !ps.is_empty() {
                    let p = *r.pick(&ps);
                    let len = g.m.n(p).kids.len();
                    let a = r.below(len + 1);
                    let b = a + r.below(len - a + 1);
                    g.push(Op::RemoveRange(p, a, b));
                }
            }
            9 | 10 => {
                let p = *r.pick(&alive);
                if r.chance(1, 2) && g.m.n(p).kids.len() >= 2 {
                    // permutation of the node's own children (sometimes dropping one)
                    let mut ks = g.m.n(p).kids.clone();
                    for i in (1..ks.len()).rev() {
                        let j = r.below(i + 1);
                        ks.swap(i, j);
                    }
                    if r.chance(1, 4) {
                        ks.pop();
                    }
                    g.push(Op::SetChildren(p, ks));
                } else {
                    // reparenting: steal up to three nodes that are not ancestors of p
                    let mut cands: Vec<usize> = alive.iter().copied().filter(|&c| !g.m.in_subtree(c, p)).collect();
                    let k = r.below(cands.len().min(3) + 1);
                    let mut cs = vec![];
                    for _ in 0..k {
                        let j = r.below(cands.len());
                        cs.push(cands.remove(j));
                    }
                    g.push(Op::SetChildren(p, cs));
                }
            }
            11 => {
                let n = *r.pick(&alive);
                g.push(Op::Remove(n));
            }
            12 | 13 => {
                let n = *r.pick(&alive);
                g.push(Op::MarkDirty(n));
            }
            14 => {
                let b = !g.m.rounding;
                g.push(Op::Rounding(b));
            }
            _ => {
                let roots = g.m.roots();
                let root = if g.m.alive(main) && g.m.n(main).parent.is_none() && r.chance(3, 5) { main } else { *r.pick(&roots) };
                let a = match r.below(10) {
                    0..=2 => last_av,
                    3..=5 => {
                        alt = 1 - alt;
                        avs[alt]
                    }
                    _ => gen_available(r),
                };
                last_av = a;
                g.push(Op::Compute(root, a));
            }
        }
    }
    // always end with a pass
    let roots = g.m.roots();
    if !roots.is_empty() {
        let root = if g.m.alive(main) && g.m.n(main).parent.is_none() { main } else { *r.pick(&roots) };
        let a = if r.chance(1, 2) { last_av } else { gen_available(r) };
        g.push(Op::Compute(root, a));
    }
    g.ops
}

/// "invalidating any node without changing anything never changes a layout": tree, pass, mark_dirty(n), same pass
fn gen_invalidate(r: &mut Rng) -> Vec<Op> {
    let mut g = HGen::new();
    let main = g.new_tree(r, 10);
    let a = gen_available(r);
    g.push(Op::Compute(main, a));
    let k = 1 + r.below(2);
    for _ in 0..k {
        let alive = g.m.alive_nodes();
        let n = *r.pick(&alive);
        g.push(Op::MarkDirty(n));
        g.push(Op::Compute(main, a));
    }
    g.ops
}

// ---------------------------------------------------------------------------------------------------------
// fixed witnesses (run first)

fn leaf_style(w: f32, h: f32) -> Style {
    Style { size: Size { width: length(w), height: length(h) }, ..Style::DEFAULT }
}

/// DESIGN §9 item 13: a 30×30 leaf laid out as its own root, then attached to a node X that lies below a clean
/// display:none node H (X's cache was cleared by the hidden layout, so mark_dirty(X) stops at once and H stays clean)
fn witness_attach_under_hidden() -> Vec<Op> {
    let av100 = avd(100.0, 100.0);
    vec![
        Op::NewTree(vec![
            FNode { idx: 0, style: Style { display: Display::Block, ..leaf_style(100.0, 100.0) }, ctx: None, kids: vec![1] },
            FNode { idx: 1, style: disp(Display::None), ctx: None, kids: vec![3] },
            FNode { idx: 3, style: disp(Display::Block), ctx: None, kids: vec![] },
        ]),
        Op::Compute(0, av100),
        Op::NewTree(vec![FNode { idx: 2, style: Style { display: Display::Block, ..leaf_style(30.0, 30.0) }, ctx: None, kids: vec![] }]),
        Op::Compute(2, av100),
        Op::AddChild(3, 2),
        Op::Compute(0, av100),
    ]
}

/// one update dirties a node and hides a proper ancestor of it: the hidden pass must still zero the dirtied subtree
fn witness_hide_ancestor_after_dirty() -> Vec<Op> {
    let av100 = avd(100.0, 100.0);
    vec![
        Op::NewTree(vec![
            FNode { idx: 0, style: Style { display: Display::Block, ..leaf_style(100.0, 100.0) }, ctx: None, kids: vec![1] },
            FNode { idx: 1, style: disp(Display::Block), ctx: None, kids: vec![2] },
            FNode { idx: 2, style: disp(Display::Flex), ctx: None, kids: vec![3] },
            FNode { idx: 3, style: Style { display: Display::Block, ..leaf_style(30.0, 30.0) }, ctx: None, kids: vec![] },
        ]),
        Op::Compute(0, av100),
        Op::MarkDirty(2),
        Op::SetStyle(1, disp(Display::None)),
        Op::Compute(0, av100),
    ]
}

/// minimised from the random search (seed 1, case 10075): mark_dirty + same pass, pure lossy key.
/// n2's ComputeSize entry for known (2,-), avail (max,max) is first asked with an unknown parent width (percentage padding
/// resolves to 0 → 2 wide) and later stored again under parent width 24 (padding 9 → 9 wide); parent_size is not part of the
/// key, so after mark_dirty(n1) the first question hits the later answer: root 31×0 instead of 24×275.
fn witness_mark_dirty_lossy() -> Vec<Op> {
    let n2 = Style {
        display: Display::Grid,
        size: Size { width: length(2.0), height: auto() },
        margin: Rect { left: percent(0.25), right: length(22.0), top: length(0.0), bottom: length(0.0) },
        padding: Rect { left: length(0.0), right: percent(0.375), top: length(0.0), bottom: length(0.0) },
        align_self: Some(AlignItems::Baseline),
        ..Style::DEFAULT
    };
    let n3 = Style { display: Display::Block, size: Size { width: auto(), height: percent(1.5) }, ..Style::DEFAULT };
    vec![
        Op::NewTree(vec![
            FNode { idx: 0, style: Style::DEFAULT, ctx: None, kids: vec![1] },
            FNode { idx: 1, style: disp(Display::Grid), ctx: None, kids: vec![2, 3] },
            FNode { idx: 2, style: n2, ctx: None, kids: vec![] },
            FNode { idx: 3, style: n3, ctx: None, kids: vec![] },
        ]),
        Op::Compute(0, avd(230.0, 275.0)),
        Op::MarkDirty(1),
        Op::Compute(0, avd(230.0, 275.0)),
    ]
}

/// minimised from the random search (seed 1, case 7654): mark_dirty(root) + same pass. In the second pass the clean block n1
/// is asked a ComputeSize question whose entry was displaced (same slot) during the first pass; its body runs in ComputeSize
/// mode and rewrites n2's location (border 12.5% of another width); n1's PerformLayout question then hits, so n2 keeps it.
fn witness_mark_dirty_stale() -> Vec<Op> {
    let root = Style {
        display: Display::Grid,
        grid_template_columns: vec![percent(0.5), minmax(length(15.0), fr(1.0))],
        ..Style::DEFAULT
    };
    let n1 = Style {
        display: Display::Block,
        border: Rect { left: percent(0.125), right: length(0.0), top: length(0.0), bottom: length(0.0) },
        justify_self: Some(AlignItems::Center),
        ..Style::DEFAULT
    };
    let avm = Size { width: AvailableSpace::MaxContent, height: AvailableSpace::MaxContent };
    vec![
        Op::NewTree(vec![
            FNode { idx: 0, style: root, ctx: None, kids: vec![1] },
            FNode { idx: 1, style: n1, ctx: None, kids: vec![2] },
            FNode { idx: 2, style: disp(Display::Grid), ctx: None, kids: vec![] },
        ]),
        Op::Compute(0, avm),
        Op::MarkDirty(0),
        Op::Compute(0, avm),
    ]
}

/// a display:none child keeps the `order` its parent wrote when the child's cached entry is hit; a miss resets it to 0
fn witness_hidden_order() -> Vec<Op> {
    vec![
        Op::NewTree(vec![
            FNode { idx: 0, style: disp(Display::Block), ctx: None, kids: vec![1, 2] },
            FNode { idx: 1, style: disp(Display::Block), ctx: None, kids: vec![] },
            FNode { idx: 2, style: disp(Display::None), ctx: None, kids: vec![] },
        ]),
        Op::Compute(0, avd(100.0, 100.0)),
        Op::MarkDirty(0),
        Op::Compute(0, avd(100.0, 100.0)),
    ]
}

fn avd(w: f32, h: f32) -> Size<AvailableSpace> {
    Size { width: AvailableSpace::Definite(w), height: AvailableSpace::Definite(h) }
}
fn disp(d: Display) -> Style {
    Style { display: d, ..Style::DEFAULT }
}

/// found by the random search (seed 1, case 6), minimised: two passes with different available space, no edit at all
fn witness_two_passes_flex_block_grid() -> Vec<Op> {
    vec![
        Op::NewTree(vec![
            FNode { idx: 0, style: Style { flex_direction: FlexDirection::ColumnReverse, ..Style::DEFAULT }, ctx: None, kids: vec![1] },
            FNode { idx: 1, style: disp(Display::Block), ctx: None, kids: vec![2] },
            FNode { idx: 2, style: disp(Display::Grid), ctx: None, kids: vec![] },
        ]),
        Op::Compute(0, Size { width: AvailableSpace::Definite(325.0), height: AvailableSpace::MaxContent }),
        Op::Compute(0, avd(335.0, 135.0)),
    ]
}

/// label, history (the class each must show is checked in run_c01)
fn fixed_witnesses() -> Vec<(&'static str, Vec<Op>)> {
    vec![
        ("fixed:attach-under-clean-hidden", witness_attach_under_hidden()),
        ("fixed:mark-dirty-lossy-key", witness_mark_dirty_lossy()),
        ("fixed:two-passes-flex-block-grid", witness_two_passes_flex_block_grid()),
        ("fixed:mark-dirty-stale-after-compute-size", witness_mark_dirty_stale()),
        ("fixed:hidden-child-order", witness_hidden_order()),
        // no class expected: equal to the fresh tree
        ("fixed:hide-ancestor-after-dirty", witness_hide_ancestor_after_dirty()),
    ]
}

// ---------------------------------------------------------------------------------------------------------

#[derive(Default)]
struct C01Stats {
    histories: u64,
    passes: u64,
    /// "<stream>:<mode>:<class>" → number of histories in which a pass of that mode's run showed the class
    by: BTreeMap<String, u64>,
    per_stream: BTreeMap<String, u64>,
    reported: BTreeMap<&'static str, u64>,
    differing_lines: u64,
}

const C01_MAX_DIFFERING_LINES: u64 = 20_000;

fn c01_obs_line(stream: &str, attr: &str, p: &PassObs) -> (String, bool) {
    // returns (request line, panicked?)
    match (&p.inc, &p.fresh) {
        (Ok(i), Ok(f)) => (
            format!(
                "obs C01 {attr} {stream} {} {} T {} {} {} {} {}",
                p.rounding as u8,
                av_pair(p.avail),
                p.desc.line(),
                layouts_tokens(&i.0),
                layouts_tokens(&i.1),
                layouts_tokens(&f.0),
                layouts_tokens(&f.1)
            ),
            false,
        ),
        (a, b) => (format!("panicked C01 {stream} inc={} fresh={}", a.is_err() as u8, b.is_err() as u8), true),
    }
}

fn describe_pass(ops: &[Op], p: &PassObs) -> String {
    let mut s = String::new();
    if let (Ok(i), Ok(f)) = (&p.inc, &p.fresh) {
        for (k, &n) in p.pre.iter().enumerate() {
            let du = layout_line(&i.0[k]) != layout_line(&f.0[k]);
            let df = layout_line(&i.1[k]) != layout_line(&f.1[k]);
            if du {
                let _ = write!(s, " n{n}{}: incremental {} fresh {};", if p.hidden[k] { "(hidden)" } else { "" }, layout_brief(&i.0[k]), layout_brief(&f.0[k]));
            } else if df {
                let _ = write!(s, " n{n}{} (rounded only): incremental {} fresh {};", if p.hidden[k] { "(hidden)" } else { "" }, layout_brief(&i.1[k]), layout_brief(&f.1[k]));
            }
        }
    } else {
        let _ = write!(s, " panic: incremental {:?} fresh {:?}", p.inc.as_ref().err(), p.fresh.as_ref().err());
    }
    format!("at op #{} of [{}]:{}", p.op_index, history_brief(ops), s)
}

const ALL_CLASSES: [Class; 6] = [Class::New, Class::PanicOneSide, Class::Stale, Class::Hidden, Class::HiddenOrder, Class::Lossy];

fn class_what(c: Class) -> &'static str {
    match c {
        Class::Lossy => "incremental ≠ fresh with the real cache keys, equal in exact-key mode (and not removed by quiet hits alone)",
        Class::Stale => "incremental ≠ fresh, equal once a PerformLayout hit is only allowed when the node's body has not been evaluated since the store (quiet-hit mode)",
        Class::Hidden => "incremental ≠ fresh only at or below display:none nodes (survives exact keys and quiet hits)",
        Class::HiddenOrder => "incremental ≠ fresh only in Layout::order of display:none nodes (survives exact keys and quiet hits)",
        Class::New => "incremental ≠ fresh at a box-generating node, survives exact keys and quiet hits",
        Class::PanicOneSide => "exactly one of incremental / fresh panicked",
    }
}

fn c01_one(out: &mut Out, ops: &[Op], stream: &str, full: bool, st: &mut C01Stats) {
    let res = run_all(ops);
    let rp = passes(&res.runs[0]);
    st.histories += 1;
    st.passes += rp.len() as u64;
    *st.per_stream.entry(stream.to_string()).or_insert(0) += 1;
    for (o, s) in ops.iter().zip(res.runs[0].iter()) {
        if !matches!(s, Step::Skipped) {
            out.count(&format!("op:{}", o.kind()));
        }
    }
    let structural = ops.iter().zip(res.runs[0].iter()).filter(|(o, s)| o.structural() && !matches!(s, Step::Skipped)).count();
    if structural >= 1 && rp.len() >= 2 {
        out.nontrivial();
    }
    if let Some(p) = rp.last() {
        for d in [Display::Block, Display::Flex, Display::Grid, Display::None] {
            if p.desc.has_display(d) {
                out.count(&format!("final-tree-has:{d:?}"));
            }
        }
    }
    let mut quiet_passes = 0u64;
    for (mi, mode) in MODES.iter().enumerate() {
        let ps = passes(&res.runs[mi]);
        for (p, cs) in ps.iter().zip(res.classes[mi].iter()) {
            if cs.is_empty() {
                out.count(&format!("{}:equal", mode.name()));
                if !full {
                    quiet_passes += 1;
                    continue;
                }
            }
            for c in cs {
                out.count(&format!("{}:{c:?}", mode.name()));
            }
            let attr = cs.first().map_or("-", |c| c.sig());
            if !full && st.differing_lines >= C01_MAX_DIFFERING_LINES {
                // thorough runs: keep the transcript bounded; the finding is still reported (and replayable by --case)
                out.qa(&format!("differs C01 {} {attr}", mode.name()), &format!("bad {attr}"));
                continue;
            }
            if !cs.is_empty() {
                st.differing_lines += 1;
            }
            let (line, panicked) = c01_obs_line(mode.name(), attr, p);
            let ans = if panicked {
                "bad panic".to_string()
            } else if cs.is_empty() {
                "ok".to_string()
            } else {
                format!("bad {attr}")
            };
            out.qa(&line, &ans);
        }
    }
    if !full {
        out.qa(&format!("quiet C01 {quiet_passes}"), &format!("ok {quiet_passes}"));
    }
    // per-history statistics
    for (mi, mode) in MODES.iter().enumerate() {
        for c in ALL_CLASSES {
            if res.any(mi, c) {
                *st.by.entry(format!("{stream}:{}:{c:?}", mode.name())).or_insert(0) += 1;
            }
        }
    }
    // cache-conformance oracle on the real-mode trace: every hit must be justified by an earlier evaluation of that node
    if let Some(p) = rp.iter().find(|p| p.unjustified_hits > 0) {
        out.count("real:unjustified-hit");
        out.impl_violation(format!(
            "sig:c01-unjustified-cache-hit a cache hit that no earlier evaluation of the node justifies under the matching rule of cache.rs ({} in this pass); first: {}; at op #{} of [{}]",
            p.unjustified_hits,
            p.unjustified_first.clone().unwrap_or_default(),
            p.op_index,
            history_brief(ops)
        ));
    }
    // findings: one line per class that occurs in this history (in any mode's run)
    for c in ALL_CLASSES {
        if !res.any_mode(c) {
            continue;
        }
        let mi = (0..4).find(|&m| res.any(m, c)).unwrap();
        let n = st.reported.entry(c.sig()).or_insert(0);
        *n += 1;
        if matches!(c, Class::New | Class::PanicOneSide) {
            // minimise (bounded effort; the unshrunk history is the replayable case anyway)
            let fails = move |o: &[Op]| run_all(o).any_mode(c);
            let small = if *n <= 12 { shrink(ops.to_vec(), &fails, 6) } else { ops.to_vec() };
            let r2 = run_all(&small);
            let mi2 = (0..4).find(|&m| r2.any(m, c)).unwrap_or(0);
            let text = match r2.first_pass(mi2, c) {
                Some(p) => describe_pass(&small, p),
                None => format!("[{}]", history_brief(&small)),
            };
            out.impl_violation(format!("sig:{} {} ({} mode run); minimised: {}", c.sig(), class_what(c), MODES[mi2].name(), text));
        } else if *n <= 3 {
            let p = res.first_pass(mi, c).unwrap();
            out.impl_violation(format!("sig:{} {} ({} mode run); {}", c.sig(), class_what(c), MODES[mi].name(), describe_pass(ops, p)));
        } else {
            out.impl_violation(format!("sig:{} {} ({} mode run); history of {} ops (replay this case for the details)", c.sig(), class_what(c), MODES[mi].name(), ops.len()));
        }
    }
}

const C01_QUICK_HIST: u64 = 16_000;
const C01_QUICK_INV: u64 = 10_000;

pub fn run_c01(cfg: &Cfg, out: &mut Out) -> String {
    let mut st = C01Stats::default();
    let mut idx = 0u64;
    // fixed witnesses
    let expect = [Class::Hidden, Class::Lossy, Class::Stale, Class::Stale, Class::HiddenOrder];
    for (k, (label, ops)) in fixed_witnesses().into_iter().enumerate() {
        if cfg.wants(idx) {
            out.begin_case(idx, label);
            c01_one(out, &ops, "fixed", true, &mut st);
            let r = run_all(&ops);
            if let Some(e) = expect.get(k) {
                if !r.any(0, *e) {
                    out.notes.push(format!("{label}: the witness no longer shows {:?} in the real cache mode (classes now: {:?})", e, r.classes[0]));
                }
            }
        }
        idx += 1;
    }
    let n_hist = cfg.n(C01_QUICK_HIST, 300_000);
    let n_inv = cfg.n(C01_QUICK_INV, 300_000);
    let full_hist = 700u64;
    let full_inv = 200u64;
    let base = idx;
    for k in 0..n_hist {
        let idx = base + k;
        if cfg.wants(idx) {
            let mut r = Rng::for_case(cfg.seed, idx);
            out.begin_case(idx, "history");
            let ops = gen_history(&mut r);
            c01_one(out, &ops, "history", k < full_hist || cfg.only_case.is_some(), &mut st);
        }
    }
    let base = base + n_hist;
    for k in 0..n_inv {
        let idx = base + k;
        if cfg.wants(idx) {
            let mut r = Rng::for_case(cfg.seed, idx);
            out.begin_case(idx, "invalidate");
            let ops = gen_invalidate(&mut r);
            c01_one(out, &ops, "invalidate", k < full_inv || cfg.only_case.is_some(), &mut st);
        }
    }
    // rates per 10 000 histories, per stream / mode / class
    let mut parts = vec![];
    for (k, v) in &st.by {
        let stream = k.split(':').next().unwrap();
        let n = st.per_stream.get(stream).copied().unwrap_or(1).max(1);
        parts.push(format!("{}: {{\"histories\": {}, \"per_10000\": {:.1}}}", json_str(k), v, *v as f64 * 10_000.0 / n as f64));
    }
    let streams: Vec<String> = st.per_stream.iter().map(|(k, v)| format!("{}: {}", json_str(k), v)).collect();
    format!(
        "\"c01_rates\": {{\"histories\": {}, \"passes_per_mode\": {}, \"histories_per_stream\": {{{}}}, \"histories_showing_class\": {{{}}}}}",
        st.histories,
        st.passes,
        streams.join(", "),
        parts.join(", ")
    )
}

fn trace_brief(ev: &vh::TraceEvent, name: &dyn Fn(NodeId) -> String) -> String {
    let i = &ev.input;
    let o = |x: Option<f32>| x.map_or("-".to_string(), |v| format!("{v}"));
    format!(
        "{}{} {:?} {:?} {:?}/{:?} known ({},{}) parent ({},{}) avail {} coll {:?} -> size {}x{}",
        "  ".repeat(ev.depth as usize),
        name(ev.node),
        ev.kind,
        i.run_mode,
        i.sizing_mode,
        i.axis,
        o(i.known_dimensions.width),
        o(i.known_dimensions.height),
        o(i.parent_size.width),
        o(i.parent_size.height),
        avail_brief(i.available_space),
        (i.vertical_margins_are_collapsible.start, i.vertical_margins_are_collapsible.end),
        ev.output.size.width,
        ev.output.size.height
    )
}

/// debugging aid: print the query trace of every pass of one generated history (incremental and fresh)
pub fn run_c01_trace(cfg: &Cfg, _out: &mut Out) -> String {
    let idx = cfg.only_case.expect("--case K");
    let mut r = Rng::for_case(cfg.seed, idx);
    let mode = match cfg.tier.as_str() {
        "exact" => Mode::Exact,
        "quiet" => Mode::Quiet,
        "realquiet" => Mode::RealQuiet,
        _ => Mode::Real,
    };
    let nf = fixed_witnesses().len() as u64;
    let mut ops = if idx < nf { fixed_witnesses()[idx as usize].1.clone() } else if idx < nf + cfg.n(C01_QUICK_HIST, 300_000) { gen_history(&mut r) } else { gen_invalidate(&mut r) };
    if std::env::var("C01_SHRINK").is_ok() {
        let want = std::env::var("C01_SHRINK").unwrap();
        // "<Class>" or "<mode>:<Class>"
        let (wm, wc) = match want.split_once(':') {
            Some((m, c)) => (MODES.iter().position(|x| x.name() == m), c.to_string()),
            None => (None, want.clone()),
        };
        let cls = ALL_CLASSES.iter().copied().find(|c| format!("{c:?}") == wc);
        let pred = move |o: &[Op]| {
            let r = run_all(o);
            if let Ok(not) = std::env::var("C01_NOT") {
                if let Some(nc) = ALL_CLASSES.iter().copied().find(|c| format!("{c:?}") == not) {
                    if r.any_mode(nc) {
                        return false;
                    }
                }
            }
            match (cls, wm) {
                (Some(c), Some(m)) => r.any(m, c),
                (Some(c), None) => r.any_mode(c),
                _ => ALL_CLASSES.iter().any(|c| r.any_mode(*c)),
            }
        };
        if !pred(&ops) {
            eprintln!("case {idx}: predicate {want} does not hold");
            return String::new();
        }
        ops = shrink(ops, &pred, 8);
    }
    trace_history(&ops, mode);
    String::new()
}

fn trace_history(ops: &[Op], mode: Mode) {
    let _g = ModeGuard::set(mode);
    let mut live = Live::new();
    for (oi, op) in ops.iter().enumerate() {
        if !live.m.valid(op) {
            eprintln!("#{oi} SKIPPED {}", op.brief());
            continue;
        }
        eprintln!("#{oi} {}", op.brief());
        if let Op::Compute(root, avail) = op {
            let rid = live.id(*root);
            vh::trace_start();
            live.t.compute_layout_with_measure(rid, *avail, |k, a, _id, ctx, _st| measure(k, a, ctx)).unwrap();
            let tr = vh::trace_take();
            let ids = live.ids.clone();
            let name = move |n: NodeId| ids.iter().position(|x| *x == Some(n)).map_or("?".to_string(), |i| format!("n{i}"));
            eprintln!("  incremental trace (completion order):");
            for ev in &tr {
                eprintln!("    {}", trace_brief(ev, &name));
            }
            let mut pre = vec![];
            live.m.preorder(*root, &mut pre);
            for &i in &pre {
                eprintln!("    n{i} unrounded {}", layout_brief(live.t.unrounded_layout(live.id(i))));
            }
            let desc = live.m.desc(*root);
            let mut ft: TaffyTree<Ctx> = TaffyTree::new();
            if !live.m.rounding {
                ft.disable_rounding();
            }
            let fr = desc.build(&mut ft);
            let mut fids = vec![];
            preorder_ids(&ft, fr, &mut fids);
            vh::trace_start();
            ft.compute_layout_with_measure(fr, *avail, |k, a, _id, ctx, _st| measure(k, a, ctx)).unwrap();
            let tr = vh::trace_take();
            let pre2 = pre.clone();
            let fids2 = fids.clone();
            let name = move |n: NodeId| fids2.iter().position(|x| *x == n).map_or("?".to_string(), |i| format!("n{}", pre2[i]));
            eprintln!("  fresh trace:");
            for ev in &tr {
                eprintln!("    {}", trace_brief(ev, &name));
            }
            for (k, &i) in pre.iter().enumerate() {
                eprintln!("    n{i} unrounded {}", layout_brief(ft.unrounded_layout(fids[k])));
            }
        } else {
            live.apply_tree(op);
            live.m.apply(op);
        }
    }
}


// =========================================================================================================
// C16 — cost

/// what one pass over a fresh tree cost
struct Cost {
    nodes: usize,
    /// measure-function invocations in total and per node (preorder)
    total: u64,
    per_node: Vec<u64>,
    /// algorithm-body evaluations (QueryKind::Miss of hook H3) in total and the per-node maximum
    misses: u64,
    max_misses_per_node: u64,
    queries: u64,
    /// the measure budget (a multiple of the bound) was exceeded and the pass aborted
    aborted: bool,
    /// the query budget (1024 · N layout queries) was exceeded and the pass aborted
    queries_exceeded: bool,
    panicked: Option<String>,
    /// the layout queries of the pass in completion order, as (preorder index of the node, event)
    events: Vec<(usize, vh::TraceEvent)>,
}

/// In-situ cache tie: the queries one pass made of each node's cache, replayed on the Lean cache model. On a fresh tree
/// a node's cache sees, per query in completion order, `get` (hit → answer) or `get` (miss) followed by `store` of the
/// computed output. At most `cap` request lines are written; per node the sequence written is a prefix.
std::thread_local! {
    /// request lines the in-situ cache tie has written in this run (a run writes at most `CACHE_TIE_BUDGET`)
    static CACHE_TIE_LINES: Cell<usize> = const { Cell::new(0) };
}
const CACHE_TIE_BUDGET: usize = 2_000_000;

fn emit_cache_tie(out: &mut Out, c: &Cost, cap: usize) {
    let used = CACHE_TIE_LINES.with(|x| x.get());
    if used >= CACHE_TIE_BUDGET {
        out.count("cache-tie:skipped-over-run-budget");
        return;
    }
    let cap = cap.min(CACHE_TIE_BUDGET - used);
    let mut per: BTreeMap<usize, Vec<&vh::TraceEvent>> = BTreeMap::new();
    for (i, e) in &c.events {
        per.entry(*i).or_default().push(e);
    }
    let mut lines = 0usize;
    for (_i, evs) in per {
        if lines >= cap {
            break;
        }
        out.qa("cache new", "ok");
        for e in evs {
            if lines >= cap {
                break;
            }
            let key = format!(
                "{} {} {} {} {}",
                hxo(e.input.known_dimensions.width),
                hxo(e.input.known_dimensions.height),
                crate::c02::show_av(e.input.available_space.width),
                crate::c02::show_av(e.input.available_space.height),
                crate::c02::show_mode(e.input.run_mode)
            );
            match e.kind {
                vh::QueryKind::Hit => {
                    out.qa(&format!("cache get {key}"), &format!("some {}", crate::c02::show_output(&e.output)));
                    out.count("cache-tie:hit");
                    lines += 1;
                }
                vh::QueryKind::Miss => {
                    out.qa(&format!("cache get {key}"), "none");
                    out.qa(&format!("cache store {key} {}", crate::c02::show_output(&e.output)), "ok");
                    out.count("cache-tie:miss");
                    lines += 2;
                }
                // a hidden-mode call clears the cache without telling what it held: the replayed prefix ends here
                vh::QueryKind::Hidden => break,
            }
        }
    }
    CACHE_TIE_LINES.with(|x| x.set(x.get() + lines));
}

const C16_FACTOR: u64 = 64;
const C16_QUERY_FACTOR: u64 = 1024;

/// Cost tie: the number of algorithm-body evaluations (hook H3 `Miss`) of every node in one fresh pass, against the
/// tree-level evaluator's prediction (`evalgcost`: the real cache model + the leaf/block/flex/grid programs). Where the two
/// agree, the cost of the pass is the cost of the model that the theorems are about; a pass whose cost the model does not
/// predict is a difference in this case, so no known cost finding explains it.
fn emit_cost_tie(out: &mut Out, d: &TreeDesc, avail: Size<AvailableSpace>, c: &Cost) {
    if c.aborted || c.queries_exceeded || c.panicked.is_some() {
        out.count("cost-tie:skipped-aborted");
        return;
    }
    if c.misses > 40_000 {
        out.count("cost-tie:skipped-too-many-evaluations");
        return;
    }
    let mut miss = vec![0u64; c.nodes];
    for (i, e) in &c.events {
        if e.kind == vh::QueryKind::Miss {
            miss[*i] += 1;
        }
    }
    out.count("cost-tie:compared");
    out.qa(
        &format!("evalgcost {} {} {}", av(avail.width), av(avail.height), crate::evaltree::gline(d)),
        &miss.iter().map(|x| x.to_string()).collect::<Vec<_>>().join(" "),
    );
}

fn cost_of(d: &TreeDesc, avail: Size<AvailableSpace>) -> Cost {
    let mut t: TaffyTree<Ctx> = TaffyTree::new();
    t.disable_rounding();
    let root = d.build(&mut t);
    let mut ids = vec![];
    preorder_ids(&t, root, &mut ids);
    let pos: HashMap<NodeId, usize> = ids.iter().enumerate().map(|(i, id)| (*id, i)).collect();
    let n = ids.len();
    let total = Cell::new(0u64);
    let per = RefCell::new(vec![0u64; n]);
    let budget = C16_FACTOR * n as u64 * 8 + 1000;
    vh::trace_start();
    vh::set_query_budget(C16_QUERY_FACTOR * n as u64);
    let r = catch(|| {
        t.compute_layout_with_measure(root, avail, |k, a, id, ctx, _st| {
            total.set(total.get() + 1);
            per.borrow_mut()[pos[&id]] += 1;
            if total.get() > budget {
                panic!("c16-measure-budget");
            }
            measure(k, a, ctx)
        })
        .unwrap();
    });
    vh::set_query_budget(0);
    let tr = vh::trace_take();
    let mut miss = vec![0u64; n];
    for ev in &tr {
        if ev.kind == vh::QueryKind::Miss {
            if let Some(&i) = pos.get(&ev.node) {
                miss[i] += 1;
            }
        }
    }
    let aborted = matches!(&r, Err(e) if e.contains("c16-measure-budget"));
    let queries_exceeded = matches!(&r, Err(e) if e.contains("verif-query-budget-exceeded"));
    Cost {
        nodes: n,
        total: total.get(),
        per_node: per.into_inner(),
        misses: miss.iter().sum(),
        max_misses_per_node: miss.iter().copied().max().unwrap_or(0),
        queries: tr.len() as u64,
        events: tr.iter().filter_map(|e| pos.get(&e.node).map(|i| (*i, e.clone()))).collect(),
        aborted,
        queries_exceeded,
        panicked: match r {
            Err(e) if !aborted && !queries_exceeded => Some(e),
            _ => None,
        },
    }
}

/// number of body evaluations of a pass that an unbounded memo with `Cache::get`'s matching rule would have answered:
/// an earlier result of the same node, stored in this pass, was compatible but had been displaced from its slot
fn evicted_remisses(c: &Cost) -> u64 {
    let mut stored: HashMap<usize, Vec<(LayoutInput, LayoutOutput)>> = HashMap::new();
    let mut n = 0u64;
    for (i, e) in &c.events {
        if e.kind == vh::QueryKind::Miss {
            let v = stored.entry(*i).or_default();
            if v.iter().any(|(ki, ko)| entry_compatible(ki, ko, &e.input)) {
                n += 1;
            }
            v.push((e.input, e.output));
        }
    }
    n
}

/// one container level of a chain family
#[derive(Clone)]
struct ChainFamily {
    label: String,
    /// styles of the intermediate containers, cycled from the root downwards
    levels: Vec<Style>,
    leaf: Style,
    ctx: Ctx,
    avail: Size<AvailableSpace>,
}

fn chain_tree(f: &ChainFamily, depth: usize) -> TreeDesc {
    let mut node = TreeDesc { style: f.leaf.clone(), ctx: Some(f.ctx), children: vec![] };
    for lvl in (0..depth).rev() {
        node = TreeDesc { style: f.levels[lvl % f.levels.len()].clone(), ctx: None, children: vec![node] };
    }
    node
}

fn chain_families(r: &mut Rng, n_random: usize) -> Vec<ChainFamily> {
    let mut out = vec![];
    let kinds: Vec<(&str, Vec<Style>)> = {
        let b = disp(Display::Block);
        let fr = disp(Display::Flex);
        let fc = Style { display: Display::Flex, flex_direction: FlexDirection::Column, ..Style::DEFAULT };
        let g = disp(Display::Grid);
        let g11 = Style { display: Display::Grid, grid_template_columns: vec![fr1()], grid_template_rows: vec![auto()], ..Style::DEFAULT };
        let gmc = Style { display: Display::Grid, grid_template_columns: vec![min_content()], grid_template_rows: vec![max_content()], ..Style::DEFAULT };
        vec![
            ("grid-pct-row", vec![Style { display: Display::Grid, grid_template_rows: vec![percent(0.25)], ..Style::DEFAULT }]),
            ("grid-pct-row-baseline", vec![Style { display: Display::Grid, grid_template_rows: vec![percent(0.25)], align_items: Some(AlignItems::Baseline), ..Style::DEFAULT }]),
            ("block", vec![b.clone()]),
            ("flexrow", vec![fr.clone()]),
            ("flexcol", vec![fc.clone()]),
            ("grid", vec![g.clone()]),
            ("grid-fr", vec![g11.clone()]),
            ("grid-minmax-content", vec![gmc.clone()]),
            ("block-flexrow", vec![b.clone(), fr.clone()]),
            ("flexrow-flexcol", vec![fr.clone(), fc.clone()]),
            ("block-flexcol-grid", vec![b.clone(), fc.clone(), g.clone()]),
            ("grid-flexrow", vec![g.clone(), fr.clone()]),
            // items stretched in neither axis: sized under a min-content width and under a min-content height in one pass
            (
                "grid-flexcol-flexrow-start",
                vec![
                    g.clone(),
                    Style { align_self: Some(AlignSelf::Start), justify_self: Some(AlignSelf::Start), ..fc.clone() },
                    Style { align_self: Some(AlignSelf::Start), ..fr.clone() },
                ],
            ),
            ("flexcol-grid-block-flexrow", vec![fc, g, b, fr]),
        ]
    };
    let sizings: Vec<(&str, fn(&mut Style))> = vec![
        ("auto", |_s| {}),
        ("definite", |s| s.size = Size { width: length(200.0), height: length(120.0) }),
        ("width-only", |s| s.size = Size { width: length(200.0), height: auto() }),
        ("percent", |s| s.size = Size { width: percent(1.0), height: percent(0.5) }),
        ("padded", |s| s.padding = Rect { left: length(1.0), right: length(1.0), top: length(1.0), bottom: length(1.0) }),
        ("minmax", |s| {
            s.min_size = Size { width: length(10.0), height: auto() };
            s.max_size = Size { width: length(300.0), height: percent(1.0) }
        }),
        ("stretch-center", |s| {
            s.align_items = Some(AlignItems::Center);
            s.justify_content = Some(AlignContent::Center)
        }),
        ("baseline-wrap", |s| {
            s.align_items = Some(AlignItems::Baseline);
            s.flex_wrap = FlexWrap::Wrap
        }),
        ("grow", |s| {
            s.flex_grow = 1.0;
            s.flex_basis = length(0.0)
        }),
        // margins that differ between the axes (the cross-axis and main-axis margin sums are not interchangeable)
        ("margin-top", |s| s.margin.top = length(1.0)),
        ("grow-margin-top", |s| {
            s.flex_grow = 1.0;
            s.margin.top = length(1.0)
        }),
        ("margin-left-pct", |s| s.margin.left = percent(0.125)),
    ];
    let avails = [
        ("min", Size { width: AvailableSpace::MinContent, height: AvailableSpace::MinContent }),
        ("max", Size { width: AvailableSpace::MaxContent, height: AvailableSpace::MaxContent }),
        ("def", avd(300.0, 200.0)),
        ("def-max", Size { width: AvailableSpace::Definite(120.0), height: AvailableSpace::MaxContent }),
    ];
    // "zero": a leaf that measures 0 x 0 — every box above it in an auto-sized chain is 0 x 0 too (seeded C16-5 skipped the cache store for exactly those)
    let ctxs = [("fixed", Ctx::Fixed(40.0, 10.0)), ("wrap", Ctx::Wrap(160.0, 10.0)), ("zero", Ctx::Fixed(0.0, 0.0))];
    for (kn, levels) in &kinds {
        for (sn, sz) in &sizings {
            for (an, a) in &avails {
                for (cn, c) in &ctxs {
                    let mut lv = levels.clone();
                    for s in &mut lv {
                        sz(s);
                    }
                    out.push(ChainFamily { label: format!("{kn}/{sn}/{an}/{cn}"), levels: lv, leaf: Style::DEFAULT, ctx: *c, avail: *a });
                }
            }
        }
    }
    // random families: 1–4 random container styles cycled, random leaf style
    let mut cfg = GenCfg::all();
    cfg.allow_hidden = false;
    cfg.allow_absolute = false;
    for k in 0..n_random {
        let nl = 1 + r.below(4);
        let levels: Vec<Style> = (0..nl).map(|i| gen_style(r, &cfg, false, i == 0)).collect();
        let leaf = gen_style(r, &cfg, true, false);
        let ctx = if r.chance(1, 2) { Ctx::Fixed(r.range(1, 60) as f32, r.range(1, 20) as f32) } else { Ctx::Wrap(r.range(1, 30) as f32 * 4.0, r.range(1, 8) as f32 * 2.5) };
        let kinds: String = levels.iter().map(|s| match s.display { Display::Block => 'B', Display::Flex => 'F', Display::Grid => 'G', Display::None => 'N' }).collect();
        out.push(ChainFamily { label: format!("random{k}:{kinds}"), levels, leaf, ctx, avail: gen_available(r) });
    }
    out
}

/// reset style fields of a chain family one at a time while the leaf's measure-call count at `depth` stays above 64·N
fn shrink_family(f: &ChainFamily, depth: usize) -> ChainFamily {
    let bad = |f: &ChainFamily| {
        let c = cost_of(&chain_tree(f, depth), f.avail);
        c.aborted || c.per_node.last().copied().unwrap_or(0) > C16_FACTOR * (depth as u64 + 1)
    };
    let mut cur = f.clone();
    if !bad(&cur) {
        return cur;
    }
    let resets = style_resets();
    for _ in 0..4 {
        let mut changed = false;
        for li in 0..=cur.levels.len() {
            for rs in &resets {
                let mut c = cur.clone();
                let st = if li < c.levels.len() { &mut c.levels[li] } else { &mut c.leaf };
                let before = st.clone();
                rs(st);
                if *st == before {
                    continue;
                }
                if bad(&c) {
                    cur = c;
                    changed = true;
                }
            }
        }
        if !changed {
            break;
        }
    }
    cur
}

fn fr1() -> TrackSizingFunction {
    fr(1.0)
}

const CHAIN_DEPTHS: usize = 64;

pub fn run_c16(cfg: &Cfg, out: &mut Out) -> String {
    let mut idx = 0u64;
    let mut max_ratio = 0f64; // measure calls / nodes
    let mut max_ratio_case = 0u64;
    let mut max_leaf = 0u64;
    let mut max_miss_per_node = 0u64;
    let mut max_miss_ratio = 0f64;
    let mut worst_family = String::new();
    let mut worst_family_leaf = 0u64;
    let mut worst_chain_total_ratio = 0f64;
    let mut growing = 0u64;
    let mut blowing = 0u64;
    let mut query_blowups = 0u64;
    let mut sizes: BTreeMap<usize, u64> = BTreeMap::new();
    // (i) random mixes
    let n_mix = cfg.n(3_000, 60_000);
    for k in 0..n_mix {
        if cfg.wants(idx) {
            let mut r = Rng::for_case(cfg.seed, idx);
            out.begin_case(idx, "mix");
            let mut g = GenCfg::all();
            match k % 4 {
                0 => {
                    g.max_nodes = 40;
                    g.max_depth = 5;
                    g.max_children = 5;
                }
                1 => {
                    g.max_nodes = 150;
                    g.max_depth = 8;
                    g.max_children = 6;
                }
                2 => {
                    g.max_nodes = 300;
                    g.max_depth = 12;
                    g.max_children = 4;
                }
                _ => {
                    g.max_nodes = 300;
                    g.max_depth = 6;
                    g.max_children = 10;
                }
            }
            if r.chance(1, 4) {
                g.displays = vec![*r.pick(&[Display::Block, Display::Flex, Display::Grid])];
            }
            let d = gen_tree(&mut r, &g);
            let avail = gen_available(&mut r);
            let c = cost_of(&d, avail);
            *sizes.entry((c.nodes / 50) * 50).or_insert(0) += 1;
            for dsp in [Display::Block, Display::Flex, Display::Grid, Display::None] {
                if d.has_display(dsp) {
                    out.count(&format!("has:{dsp:?}"));
                }
            }
            if c.nodes >= 3 {
                out.nontrivial();
            }
            let leaf_counts: Vec<String> = c.per_node.iter().filter(|x| **x > 0).map(|x| x.to_string()).collect();
            let line = format!("obs C16 mix {} {} {} {} {}", c.nodes, c.total, c.misses, leaf_counts.len(), leaf_counts.join(" "));
            let ok = c.total <= C16_FACTOR * c.nodes as u64 && !c.aborted;
            if c.queries_exceeded {
                out.count("mix:query-budget-exceeded");
                out.notes.push(format!("mix case {idx}: more than {}·N layout queries on {} nodes", C16_QUERY_FACTOR, c.nodes));
            }
            if let Some(e) = &c.panicked {
                out.count("mix:panic");
                out.qa(&format!("panicked C16 mix {}", c.nodes), "bad panic");
                out.notes.push(format!("case {idx}: layout panicked ({e}); totality is C03's subject"));
            } else {
                out.qa(&line, if ok { "ok" } else { "bad c16-measure-blowup" });
                if c.nodes <= 60 {
                    emit_cache_tie(out, &c, 1500);
                    emit_cost_tie(out, &d, avail, &c);
                }
                if !ok {
                    out.impl_violation(format!(
                        "sig:c16-measure-blowup {} measure calls on {} nodes (> {}·N{}); available space {}; tree line: {}",
                        c.total,
                        c.nodes,
                        C16_FACTOR,
                        if c.aborted { ", pass aborted at the budget" } else { "" },
                        avail_brief(avail),
                        d.line()
                    ));
                }
                let ratio = c.total as f64 / c.nodes as f64;
                if ratio > max_ratio {
                    max_ratio = ratio;
                    max_ratio_case = idx;
                }
                max_leaf = max_leaf.max(c.per_node.iter().copied().max().unwrap_or(0));
                max_miss_per_node = max_miss_per_node.max(c.max_misses_per_node);
                max_miss_ratio = max_miss_ratio.max(c.misses as f64 / c.nodes as f64);
            }
        }
        idx += 1;
    }
    // (ii) chains: one case per family, depths 1..=64
    let mut fr_rng = Rng::for_case(cfg.seed, 0xC16);
    let fams = chain_families(&mut fr_rng, cfg.n(300, 1_200) as usize);
    for f in &fams {
        if cfg.wants(idx) {
            out.begin_case(idx, "chain");
            out.nontrivial();
            out.count(&format!("chain:{}", f.label.split('/').next().unwrap().split(':').next().unwrap().trim_end_matches(char::is_numeric)));
            let mut leaf_counts = vec![];
            let mut totals = vec![];
            let mut fam_max_miss = 0u64;
            let mut panicked = None;
            let mut query_blowup_at = None;
            let mut last_remisses = 0u64;
            let t0 = std::time::Instant::now();
            for d in 1..=CHAIN_DEPTHS {
                let tree = chain_tree(f, d);
                let c = cost_of(&tree, f.avail);
                if let Some(e) = c.panicked {
                    panicked = Some(e);
                    break;
                }
                leaf_counts.push(*c.per_node.last().unwrap());
                totals.push(c.total);
                last_remisses = evicted_remisses(&c);
                if d == 6 || d == 12 {
                    emit_cache_tie(out, &c, 3000);
                }
                if d == 4 || d == 9 {
                    emit_cost_tie(out, &tree, f.avail, &c);
                }
                fam_max_miss = fam_max_miss.max(c.max_misses_per_node);
                worst_chain_total_ratio = worst_chain_total_ratio.max(c.total as f64 / c.nodes as f64);
                if c.queries_exceeded {
                    query_blowup_at = Some(d);
                }
                if c.aborted || c.queries_exceeded || t0.elapsed().as_secs() > 10 {
                    break;
                }
            }
            if let Some(e) = panicked {
                out.qa(&format!("panicked C16 chain {}", f.label.replace(' ', "_")), "bad panic");
                out.notes.push(format!("chain family {}: layout panicked ({e})", f.label));
                idx += 1;
                continue;
            }
            let nd = leaf_counts.len();
            let blow = (0..nd).any(|i| leaf_counts[i] > C16_FACTOR * (i as u64 + 2));
            // growth with depth, not periodic variation along the cycle of level styles (cycle lengths 1–4: windows of 12)
            let grows = nd >= 32 && leaf_counts[nd - 12..].iter().max() > leaf_counts[7..19].iter().max()
                || nd > 8 && nd < 32 && leaf_counts[nd - 1] > leaf_counts[7] && leaf_counts[nd - 1] > *leaf_counts[..nd - 1].iter().max().unwrap();
            let line = format!(
                "obs C16 chain {} {} {}",
                f.label.replace(' ', "_"),
                nd,
                leaf_counts.iter().map(|x| x.to_string()).collect::<Vec<_>>().join(" ")
            );
            let ans = if blow {
                "bad c16-measure-blowup"
            } else if grows {
                "bad c16-chain-growth"
            } else {
                "ok"
            };
            // mechanism of a growing family: results displaced from their cache slot and computed again (the known
            // findings), or only ever distinct questions (not seen on the unchanged tree: reported as new)
            if blow || grows {
                out.count(if last_remisses > 0 { "chain-growth:by-eviction" } else { "chain-growth:without-eviction" });
            }
            out.qa(&line, ans);
            if let Some(d) = query_blowup_at {
                query_blowups += 1;
                out.count("chain:query-budget-exceeded");
                if query_blowups <= 12 {
                    out.notes.push(format!(
                        "chain family {}: more than {}·N layout queries at depth {d} (exponential number of algorithm-body evaluations; leaf measure calls by depth {:?}); level styles {:?} leaf {} ctx {} avail {}",
                        f.label,
                        C16_QUERY_FACTOR,
                        leaf_counts,
                        f.levels.iter().map(style_brief).collect::<Vec<_>>(),
                        style_brief(&f.leaf),
                        ctx_brief(&Some(f.ctx)),
                        avail_brief(f.avail)
                    ));
                }
            }
            let fam_max = leaf_counts.iter().copied().max().unwrap_or(0);
            if fam_max > worst_family_leaf {
                worst_family_leaf = fam_max;
                worst_family = f.label.clone();
            }
            max_miss_per_node = max_miss_per_node.max(fam_max_miss);
            if blow {
                blowing += 1;
                if blowing <= 4 {
                    let d = (0..nd).find(|&i| leaf_counts[i] > C16_FACTOR * (i as u64 + 2)).unwrap() + 1;
                    let small = shrink_family(f, d);
                    let counts: Vec<u64> = (1..=d).map(|k| cost_of(&chain_tree(&small, k), small.avail).per_node.last().copied().unwrap_or(0)).collect();
                    out.notes.push(format!(
                        "minimised blow-up family (from {}): leaf measure calls by depth {:?}; level styles {:?} leaf {} ctx {} avail {}",
                        f.label,
                        counts,
                        small.levels.iter().map(style_brief).collect::<Vec<_>>(),
                        style_brief(&small.leaf),
                        ctx_brief(&Some(small.ctx)),
                        avail_brief(small.avail)
                    ));
                }
                out.impl_violation(format!(
                    "sig:c16-measure-blowup chain family {}: leaf measure calls exceed {}·N; by depth {:?}; level styles {:?} leaf {} ctx {} avail {}",
                    f.label,
                    C16_FACTOR,
                    leaf_counts,
                    f.levels.iter().map(style_brief).collect::<Vec<_>>(),
                    style_brief(&f.leaf),
                    ctx_brief(&Some(f.ctx)),
                    avail_brief(f.avail)
                ));
            } else if grows {
                growing += 1;
                out.impl_violation(format!(
                    "sig:c16-chain-growth chain family {}: leaf measure calls grow with depth: d=8 → {}, d={} → {}; by depth {:?}; level styles {:?} leaf {} ctx {} avail {}",
                    f.label,
                    leaf_counts[7],
                    nd,
                    leaf_counts[nd - 1],
                    leaf_counts,
                    f.levels.iter().map(style_brief).collect::<Vec<_>>(),
                    style_brief(&f.leaf),
                    ctx_brief(&Some(f.ctx)),
                    avail_brief(f.avail)
                ));
            }
        }
        idx += 1;
    }
    let sz: Vec<String> = sizes.iter().map(|(k, v)| format!("\"{}-{}\": {}", k, k + 49, v)).collect();
    format!(
        "\"c16_maxima\": {{\"max_measure_calls_per_node_ratio\": {:.3}, \"at_case\": {}, \"bound_factor\": {}, \"max_calls_on_one_leaf\": {},          \"max_body_evaluations_of_one_node\": {}, \"max_body_evaluations_per_node_ratio\": {:.3}, \"chain_families\": {}, \"chain_families_growing\": {}, \"chain_families_over_64N\": {}, \"chain_families_query_budget_exceeded\": {},          \"worst_chain_family\": {}, \"worst_chain_family_leaf_calls\": {}, \"max_chain_total_calls_per_node\": {:.3}, \"mix_tree_sizes\": {{{}}}}}",
        max_ratio,
        max_ratio_case,
        C16_FACTOR,
        max_leaf,
        max_miss_per_node,
        max_miss_ratio,
        fams.len(),
        growing,
        blowing,
        query_blowups,
        json_str(&worst_family),
        worst_family_leaf,
        worst_chain_total_ratio,
        sz.join(", ")
    )
}


// =========================================================================================================
// C17 — an independent tree type driving the documented low-level API

struct VNode {
    style: Style,
    ctx: Option<Ctx>,
    cache: Cache,
    unrounded_layout: Layout,
    final_layout: Layout,
    children: Vec<usize>,
}

/// Vec-backed arena (NodeId = index), written after examples/custom_tree_vec.rs and the trait documentation
struct VTree {
    nodes: Vec<VNode>,
    /// cache-free evaluation: `cache_get` never hits, `cache_store` stores nothing
    no_cache: bool,
    queries: u64,
    query_budget: u64,
}

impl VTree {
    fn new(no_cache: bool, query_budget: u64) -> Self {
        VTree { nodes: vec![], no_cache, queries: 0, query_budget }
    }
    /// preorder construction: a node's index is its preorder position
    fn add(&mut self, d: &TreeDesc) -> usize {
        let i = self.nodes.len();
        self.nodes.push(VNode {
            style: d.style.clone(),
            ctx: d.ctx,
            cache: Cache::new(),
            unrounded_layout: Layout::with_order(0),
            final_layout: Layout::with_order(0),
            children: vec![],
        });
        for c in &d.children {
            let k = self.add(c);
            self.nodes[i].children.push(k);
        }
        i
    }
    fn node(&self, id: NodeId) -> &VNode {
        &self.nodes[usize::from(id)]
    }
    fn node_mut(&mut self, id: NodeId) -> &mut VNode {
        &mut self.nodes[usize::from(id)]
    }
    fn compute_layout(&mut self, root: usize, available_space: Size<AvailableSpace>, use_rounding: bool) {
        compute_root_layout(self, NodeId::from(root), available_space);
        if use_rounding {
            round_layout(self, NodeId::from(root));
        }
    }
}

struct VChildIter<'a>(std::slice::Iter<'a, usize>);
impl Iterator for VChildIter<'_> {
    type Item = NodeId;
    fn next(&mut self) -> Option<NodeId> {
        self.0.next().copied().map(NodeId::from)
    }
}

impl taffy::TraversePartialTree for VTree {
    type ChildIter<'a> = VChildIter<'a>;
    fn child_ids(&self, node_id: NodeId) -> Self::ChildIter<'_> {
        VChildIter(self.node(node_id).children.iter())
    }
    fn child_count(&self, node_id: NodeId) -> usize {
        self.node(node_id).children.len()
    }
    fn get_child_id(&self, node_id: NodeId, index: usize) -> NodeId {
        NodeId::from(self.node(node_id).children[index])
    }
}

impl taffy::TraverseTree for VTree {}

impl taffy::LayoutPartialTree for VTree {
    type CoreContainerStyle<'a>
        = &'a Style
    where
        Self: 'a;

    fn get_core_container_style(&self, node_id: NodeId) -> Self::CoreContainerStyle<'_> {
        &self.node(node_id).style
    }
    fn set_unrounded_layout(&mut self, node_id: NodeId, layout: &Layout) {
        self.node_mut(node_id).unrounded_layout = *layout;
    }
    fn resolve_calc_value(&self, _val: *const (), _basis: f32) -> f32 {
        0.0
    }
    fn compute_child_layout(&mut self, node_id: NodeId, inputs: LayoutInput) -> LayoutOutput {
        self.queries += 1;
        if self.queries > self.query_budget {
            panic!("c17-query-budget");
        }
        // hidden mode first: an ancestor is display:none
        if inputs.run_mode == RunMode::PerformHiddenLayout {
            return compute_hidden_layout(self, node_id);
        }
        compute_cached_layout(self, node_id, inputs, |tree, node_id, inputs| {
            let display = tree.node(node_id).style.display;
            let has_children = tree.child_count(node_id) > 0;
            match (display, has_children) {
                (Display::None, _) => compute_hidden_layout(tree, node_id),
                (Display::Block, true) => compute_block_layout(tree, node_id, inputs),
                (Display::Flex, true) => compute_flexbox_layout(tree, node_id, inputs),
                (Display::Grid, true) => compute_grid_layout(tree, node_id, inputs),
                (_, false) => {
                    let node = tree.node(node_id);
                    let ctx = node.ctx;
                    compute_leaf_layout(
                        inputs,
                        &node.style,
                        |_val, _basis| 0.0,
                        |known_dimensions, available_space| match &ctx {
                            Some(c) => measure_ctx(c, known_dimensions, available_space),
                            None => noctx_size(),
                        },
                    )
                }
            }
        })
    }
}

impl CacheTree for VTree {
    fn cache_get(&self, node_id: NodeId, known_dimensions: Size<Option<f32>>, available_space: Size<AvailableSpace>, run_mode: RunMode) -> Option<LayoutOutput> {
        if self.no_cache {
            return None;
        }
        self.node(node_id).cache.get(known_dimensions, available_space, run_mode)
    }
    fn cache_store(&mut self, node_id: NodeId, known_dimensions: Size<Option<f32>>, available_space: Size<AvailableSpace>, run_mode: RunMode, layout_output: LayoutOutput) {
        if self.no_cache {
            return;
        }
        self.node_mut(node_id).cache.store(known_dimensions, available_space, run_mode, layout_output)
    }
    fn cache_clear(&mut self, node_id: NodeId) {
        self.node_mut(node_id).cache.clear();
    }
}

impl taffy::LayoutFlexboxContainer for VTree {
    type FlexboxContainerStyle<'a>
        = &'a Style
    where
        Self: 'a;
    type FlexboxItemStyle<'a>
        = &'a Style
    where
        Self: 'a;
    fn get_flexbox_container_style(&self, node_id: NodeId) -> Self::FlexboxContainerStyle<'_> {
        &self.node(node_id).style
    }
    fn get_flexbox_child_style(&self, child_node_id: NodeId) -> Self::FlexboxItemStyle<'_> {
        &self.node(child_node_id).style
    }
}

impl taffy::LayoutGridContainer for VTree {
    type GridContainerStyle<'a>
        = &'a Style
    where
        Self: 'a;
    type GridItemStyle<'a>
        = &'a Style
    where
        Self: 'a;
    fn get_grid_container_style(&self, node_id: NodeId) -> Self::GridContainerStyle<'_> {
        &self.node(node_id).style
    }
    fn get_grid_child_style(&self, child_node_id: NodeId) -> Self::GridItemStyle<'_> {
        &self.node(child_node_id).style
    }
}

impl taffy::LayoutBlockContainer for VTree {
    type BlockContainerStyle<'a>
        = &'a Style
    where
        Self: 'a;
    type BlockItemStyle<'a>
        = &'a Style
    where
        Self: 'a;
    fn get_block_container_style(&self, node_id: NodeId) -> Self::BlockContainerStyle<'_> {
        &self.node(node_id).style
    }
    fn get_block_child_style(&self, child_node_id: NodeId) -> Self::BlockItemStyle<'_> {
        &self.node(child_node_id).style
    }
}

impl taffy::RoundTree for VTree {
    fn get_unrounded_layout(&self, node_id: NodeId) -> &Layout {
        &self.node(node_id).unrounded_layout
    }
    fn set_final_layout(&mut self, node_id: NodeId, layout: &Layout) {
        self.node_mut(node_id).final_layout = *layout;
    }
}

type LL = (Vec<Layout>, Vec<Layout>);

fn taffy_layouts(d: &TreeDesc, avail: Size<AvailableSpace>, rounding: bool, mode: Mode) -> Result<LL, String> {
    let _g = ModeGuard::set(mode);
    layout_fresh(d, avail, rounding).map(|(t, r)| (all_layouts(&t, r, true), all_layouts(&t, r, false)))
}

fn vtree_layouts(d: &TreeDesc, avail: Size<AvailableSpace>, rounding: bool, mode: Mode, no_cache: bool, budget: u64) -> Result<LL, String> {
    let _g = ModeGuard::set(mode);
    catch(|| {
        let mut t = VTree::new(no_cache, budget);
        let root = t.add(d);
        t.compute_layout(root, avail, rounding);
        let unr: Vec<Layout> = t.nodes.iter().map(|n| n.unrounded_layout).collect();
        // like TaffyTree::layout(): the rounded layout when rounding is on, the unrounded one otherwise
        let fin: Vec<Layout> = t.nodes.iter().map(|n| if rounding { n.final_layout } else { n.unrounded_layout }).collect();
        (unr, fin)
    })
}

fn desc_hidden_mask(d: &TreeDesc, above: bool, out: &mut Vec<bool>) {
    let h = above || d.style.display == Display::None;
    out.push(h);
    for c in &d.children {
        desc_hidden_mask(c, h, out);
    }
}

fn depth_of(d: &TreeDesc) -> usize {
    1 + d.children.iter().map(depth_of).max().unwrap_or(0)
}

fn ll_tokens(x: &LL) -> String {
    format!("{} {}", layouts_tokens(&x.0), layouts_tokens(&x.1))
}
fn ll_eq(a: &LL, b: &LL) -> bool {
    same_layouts(&a.0, &b.0) && same_layouts(&a.1, &b.1)
}

/// first differing node of two layout lists, for the violation text
fn first_diff(a: &[Layout], b: &[Layout]) -> String {
    match diff_nodes(a, b).first() {
        Some((i, _)) => format!("preorder node {i}: {} vs {}", a.get(*i).map_or("-".into(), layout_brief), b.get(*i).map_or("-".into(), layout_brief)),
        None => "-".into(),
    }
}

const C17_CACHE_FREE_BUDGET: u64 = 3_000_000;
const C17_FULL_LINES: u64 = 4_000;

/// an edit between two passes of the relayout stream, by preorder index
#[derive(Clone, Debug)]
enum VEdit {
    MarkDirty(usize),
    SetStyle(usize, Style),
    /// re-parent node .0 below node .1 (appended); .2 = through `set_children` (true) or `remove_child` + `add_child`
    Move(usize, usize, bool),
    /// `set_node_context(node, ctx)`: replace or remove (None) the measure data of a node
    SetContext(usize, Option<Ctx>),
}

fn gen_vedits(r: &mut Rng, d: &TreeDesc) -> Vec<VEdit> {
    let n = d.count();
    let mut styles = vec![];
    fn collect(d: &TreeDesc, out: &mut Vec<(Style, bool)>) {
        out.push((d.style.clone(), d.children.is_empty()));
        for c in &d.children {
            collect(c, out);
        }
    }
    collect(d, &mut styles);
    let mut ctxs: Vec<Option<Ctx>> = {
        let mut nodes = vec![];
        d.preorder(&mut nodes);
        nodes.iter().map(|x| x.ctx).collect()
    };
    let k = 1 + r.below(3);
    let cfg = GenCfg::all();
    // at most one structural edit, first (later edits address nodes by their original preorder index)
    let mut first = vec![];
    if n >= 3 && r.chance(1, 3) {
        fn sizes(d: &TreeDesc, out: &mut Vec<usize>) {
            let i = out.len();
            out.push(0);
            for c in &d.children {
                sizes(c, out);
            }
            out[i] = out.len() - i;
        }
        let mut sz = vec![];
        sizes(d, &mut sz);
        let c = 1 + r.below(n - 1);
        let cands: Vec<usize> = (0..n).filter(|&p| p < c || p >= c + sz[c]).collect();
        if !cands.is_empty() {
            first.push(VEdit::Move(c, *r.pick(&cands), r.chance(1, 2)));
        }
    }
    first
        .into_iter()
        .chain((0..k)
        .map(|_| {
            let i = r.below(n);
            match r.below(5) {
                0 => VEdit::MarkDirty(i),
                1 => {
                    // node-context change on a childless node, preferably one that has a context (removal: None)
                    let leaves: Vec<usize> = (0..n).filter(|&j| styles[j].1).collect();
                    let with_ctx: Vec<usize> = leaves.iter().copied().filter(|&j| ctxs[j].is_some()).collect();
                    let j = if !with_ctx.is_empty() && r.chance(2, 3) { *r.pick(&with_ctx) } else if !leaves.is_empty() { *r.pick(&leaves) } else { i };
                    let c = if ctxs[j].is_some() && r.chance(1, 2) { None } else { Some(Ctx::Fixed(r.range(0, 40) as f32 * 0.5, r.range(0, 30) as f32 * 0.5)) };
                    ctxs[j] = c;
                    VEdit::SetContext(j, c)
                }
                2 | 3 => {
                    // toggle display:none
                    let mut st = styles[i].0.clone();
                    st.display = if st.display == Display::None { Display::Block } else { Display::None };
                    styles[i].0 = st.clone();
                    VEdit::SetStyle(i, st)
                }
                _ => {
                    let st = gen_style(r, &cfg, styles[i].1, i == 0);
                    styles[i].0 = st.clone();
                    VEdit::SetStyle(i, st)
                }
            }
        }))
        .collect()
}

/// TaffyTree: layout, the edits through the public mutators, layout again
fn taffy_relayout(d: &TreeDesc, a1: Size<AvailableSpace>, a2: Size<AvailableSpace>, rounding: (bool, bool), edits: &[VEdit]) -> Result<LL, String> {
    taffy_relayout_with(d, a1, a2, rounding, edits, false)
}

/// `dirty_up`: the neutraliser of the known finding "attach under a clean hidden node" — after a move, mark every ancestor
/// of the new parent dirty one by one (`mark_dirty` itself stops at the first empty cache)
/// `rounding` = (rounding during the first pass, rounding during the second pass): the toggle goes through
/// `enable_rounding` / `disable_rounding` between the passes
fn taffy_relayout_with(d: &TreeDesc, a1: Size<AvailableSpace>, a2: Size<AvailableSpace>, rounding: (bool, bool), edits: &[VEdit], dirty_up: bool) -> Result<LL, String> {
    let (mut t, root) = layout_fresh(d, a1, rounding.0)?;
    catch(move || {
        let mut ids = vec![];
        preorder_ids(&t, root, &mut ids);
        for e in edits {
            match e {
                VEdit::MarkDirty(i) => t.mark_dirty(ids[*i]).unwrap(),
                VEdit::SetStyle(i, s) => t.set_style(ids[*i], s.clone()).unwrap(),
                VEdit::SetContext(i, c) => t.set_node_context(ids[*i], *c).unwrap(),
                VEdit::Move(c, p, true) => {
                    let mut ks = t.children(ids[*p]).unwrap();
                    ks.retain(|x| *x != ids[*c]);
                    ks.push(ids[*c]);
                    t.set_children(ids[*p], &ks).unwrap();
                }
                VEdit::Move(c, p, false) => {
                    let old = t.parent(ids[*c]).unwrap();
                    t.remove_child(old, ids[*c]).unwrap();
                    t.add_child(ids[*p], ids[*c]).unwrap();
                }
            }
            if let (true, VEdit::Move(_, p, _)) = (dirty_up, e) {
                let mut cur = Some(ids[*p]);
                while let Some(n) = cur {
                    t.mark_dirty(n).unwrap();
                    cur = t.parent(n);
                }
            }
        }
        if rounding.1 != rounding.0 {
            if rounding.1 {
                t.enable_rounding()
            } else {
                t.disable_rounding()
            }
        }
        t.compute_layout_with_measure(root, a2, |k, a, _id, ctx, _style| measure(k, a, ctx)).unwrap();
        // by node (original preorder index), not by the preorder of the edited tree
        (ids.iter().map(|id| *t.unrounded_layout(*id)).collect(), ids.iter().map(|id| *t.layout(*id).unwrap()).collect())
    })
}

/// the documented low-level driver: layout, the edits (store the style; clear the cache of the node and of every
/// ancestor, as the `CacheTree` / `Cache::clear` documentation prescribes for a changed node), layout again
fn vtree_relayout(d: &TreeDesc, a1: Size<AvailableSpace>, a2: Size<AvailableSpace>, rounding: (bool, bool), edits: &[VEdit]) -> Result<LL, String> {
    catch(|| {
        let mut t = VTree::new(false, u64::MAX);
        let root = t.add(d);
        t.compute_layout(root, a1, rounding.0);
        let mut parent = vec![usize::MAX; t.nodes.len()];
        for i in 0..t.nodes.len() {
            for &c in &t.nodes[i].children.clone() {
                parent[c] = i;
            }
        }
        for e in edits {
            let mut dirty = vec![];
            match e {
                VEdit::MarkDirty(i) => dirty.push(*i),
                VEdit::SetStyle(i, s) => {
                    t.nodes[*i].style = s.clone();
                    dirty.push(*i);
                }
                VEdit::SetContext(i, c) => {
                    t.nodes[*i].ctx = *c;
                    dirty.push(*i);
                }
                VEdit::Move(c, p, _) => {
                    let old = parent[*c];
                    t.nodes[old].children.retain(|x| x != c);
                    t.nodes[*p].children.push(*c);
                    parent[*c] = *p;
                    dirty.push(old);
                    dirty.push(*p);
                }
            }
            for i in dirty {
                let mut cur = i;
                while cur != usize::MAX {
                    t.nodes[cur].cache.clear();
                    cur = parent[cur];
                }
            }
        }
        t.compute_layout(root, a2, rounding.1);
        let unr: Vec<Layout> = t.nodes.iter().map(|n| n.unrounded_layout).collect();
        let fin: Vec<Layout> = t.nodes.iter().map(|n| if rounding.1 { n.final_layout } else { n.unrounded_layout }).collect();
        (unr, fin)
    })
}

fn vedits_brief(es: &[VEdit]) -> String {
    es.iter()
        .map(|e| match e {
            VEdit::MarkDirty(i) => format!("mark_dirty(n{i})"),
            VEdit::SetStyle(i, s) => format!("set_style(n{i}, {})", style_brief(s)),
            VEdit::SetContext(i, c) => format!("set_node_context(n{i}, {})", ctx_brief(c)),
            VEdit::Move(c, p, true) => format!("set_children(n{p}, children(n{p}) + [n{c}])"),
            VEdit::Move(c, p, false) => format!("remove_child(parent(n{c}), n{c}); add_child(n{p}, n{c})"),
        })
        .collect::<Vec<_>>()
        .join("; ")
}

pub fn run_c17(cfg: &Cfg, out: &mut Out) -> String {
    let n = cfg.n(12_000, 200_000);
    let mut cache_free_done = 0u64;
    let mut cache_free_budget = 0u64;
    let mut lossy = 0u64;
    let mut memo = 0u64;
    let mut drivers = 0u64;
    let mut order = 0u64;
    let mut stale = 0u64;
    let mut relayout_diff = 0u64;
    let mut reported: BTreeMap<&'static str, u64> = BTreeMap::new();
    // fixed relayout witness: one update dirties a node and hides a proper ancestor of it
    // (runs as part of case 0 below through the random stream; the fixed form is kept in C01's witnesses)
    for idx in 0..n {
        if !cfg.wants(idx) {
            continue;
        }
        let mut r = Rng::for_case(cfg.seed, idx);
        out.begin_case(idx, "tree");
        // one case in four: the measure function also sizes the childless nodes that have no context
        let sized_noctx = idx % 4 == 3;
        set_noctx_size(if sized_noctx { Size { width: 11.0, height: 6.0 } } else { Size::ZERO });
        out.count(if sized_noctx { "measure:sizes-context-less-leaves" } else { "measure:context-less-leaves-are-0x0" });
        let mut g = GenCfg::all();
        let small = idx % 5 < 3;
        if small {
            g.max_nodes = 12;
            g.max_depth = 3;
        } else {
            g.max_nodes = 40;
            g.max_depth = 6;
            g.max_children = 5;
        }
        let d = gen_tree(&mut r, &g);
        let avail = gen_available(&mut r);
        let rounding = r.chance(1, 2);
        let nn = d.count();
        if nn >= 3 {
            out.nontrivial();
        }
        for dsp in [Display::Block, Display::Flex, Display::Grid, Display::None] {
            if d.has_display(dsp) {
                out.count(&format!("has:{dsp:?}"));
            }
        }
        out.count(if rounding { "rounding:on" } else { "rounding:off" });
        // relayout stream: both drivers lay out, take the same edits, lay out again (real cache)
        if idx % 2 == 0 {
            let mut edits = gen_vedits(&mut r, &d);
            let a2 = if r.chance(1, 2) { avail } else { gen_available(&mut r) };
            // one case in four toggles rounding between the passes (enable_rounding / disable_rounding invalidate nothing), and
            // one in five of all cases has no edit at all: with the same available space the second pass is then a pure cache hit
            let rounding = (rounding, if idx % 8 == 2 { !rounding } else { rounding });
            if idx % 10 == 2 || idx % 10 == 6 {
                edits.clear();
            }
            out.count(match rounding {
                (a, b) if a == b => "relayout-rounding:unchanged",
                (false, true) => "relayout-rounding:off-then-on",
                _ => "relayout-rounding:on-then-off",
            });
            if edits.is_empty() {
                out.count(if a2 == avail { "relayout:no-edit-same-available-space" } else { "relayout:no-edit-other-available-space" });
            }
            let both = |m: Mode| {
                let _g = ModeGuard::set(m);
                (taffy_relayout(&d, avail, a2, rounding, &edits), vtree_relayout(&d, avail, a2, rounding, &edits))
            };
            let (tr, vr) = both(Mode::Real);
            out.count("relayout:compared");
            for e in &edits {
                out.count(match e {
                    VEdit::MarkDirty(_) => "relayout-edit:mark_dirty",
                    VEdit::SetStyle(_, s) if s.display == Display::None => "relayout-edit:hide",
                    VEdit::SetStyle(..) => "relayout-edit:set_style",
                    VEdit::SetContext(_, None) => "relayout-edit:remove-context",
                    VEdit::SetContext(..) => "relayout-edit:set-context",
                    VEdit::Move(_, _, true) => "relayout-edit:move-by-set_children",
                    VEdit::Move(..) => "relayout-edit:move-by-remove+add",
                });
            }
            match (&tr, &vr) {
                (Ok(a), Ok(b)) => {
                    let same = ll_eq(a, b);
                    out.qa(&format!("obs C17R {} {} {}", a.0.len(), ll_tokens(a), ll_tokens(b)), if same { "ok" } else { "bad c17-drivers-differ-after-edit" });
                    if !same {
                        // the low-level driver clears the caches of all ancestors, TaffyTree::mark_dirty stops at the first
                        // empty cache: with the known lossy key / stale-layout findings the two dirty sets can give different
                        // layouts. Neutralisers: exact keys, then exact keys + quiet hits.
                        let agree = |m: Mode| matches!(both(m), (Ok(x), Ok(y)) if ll_eq(&x, &y));
                        let attach_neutralised = edits.iter().any(|e| matches!(e, VEdit::Move(..))) && {
                            let _g = ModeGuard::set(Mode::Quiet);
                            matches!((taffy_relayout_with(&d, avail, a2, rounding, &edits, true), vtree_relayout(&d, avail, a2, rounding, &edits)), (Ok(x), Ok(y)) if ll_eq(&x, &y))
                        };
                        let sig = if agree(Mode::Exact) {
                            lossy += 1;
                            "c17-lossy-cache-key"
                        } else if agree(Mode::Quiet) {
                            stale += 1;
                            "c17-stale-layout-after-compute-size"
                        } else if attach_neutralised {
                            "c17-attach-under-clean-hidden"
                        } else {
                            relayout_diff += 1;
                            "c17-drivers-differ-after-edit"
                        };
                        out.count(&format!("relayout:{sig}"));
                        let what = if !same_layouts(&a.0, &b.0) { first_diff(&a.0, &b.0) } else { first_diff(&a.1, &b.1) };
                        out.impl_violation(format!(
                            "sig:{sig} TaffyTree ≠ documented low-level driver after layout; {}; layout: {}; avail {} then {} rounding {rounding:?}; tree: {}",
                            vedits_brief(&edits),
                            what,
                            avail_brief(avail),
                            avail_brief(a2),
                            tree_brief(&d)
                        ));
                    }
                }
                (Err(_), Err(_)) => {
                    out.count("relayout:panic-both");
                    out.qa("panicked C17 1", "ok panic");
                }
                _ => {
                    relayout_diff += 1;
                    out.qa("panicked C17 0", "bad c17-drivers-differ");
                    out.impl_violation(format!(
                        "sig:c17-drivers-differ-after-edit exactly one of the drivers panicked on the second pass (taffy {} vtree {}); {}; tree: {}",
                        tr.is_err(),
                        vr.is_err(),
                        vedits_brief(&edits),
                        tree_brief(&d)
                    ));
                }
            }
        }
        let t_real = taffy_layouts(&d, avail, rounding, Mode::Real);
        let v_real = vtree_layouts(&d, avail, rounding, Mode::Real, false, u64::MAX);
        let t_exact = taffy_layouts(&d, avail, rounding, Mode::Exact);
        let v_exact = vtree_layouts(&d, avail, rounding, Mode::Exact, false, u64::MAX);
        let do_cf = nn <= 12 && depth_of(&d) <= 4;
        let v_free = if do_cf { Some(vtree_layouts(&d, avail, rounding, Mode::Real, true, C17_CACHE_FREE_BUDGET)) } else { None };
        let (t_real, v_real, t_exact, v_exact) = match (t_real, v_real, t_exact, v_exact) {
            (Ok(a), Ok(b), Ok(c), Ok(e)) => (a, b, c, e),
            (a, b, c, e) => {
                let all_panic = a.is_err() && b.is_err() && c.is_err() && e.is_err();
                out.count(if all_panic { "panic:all-drivers" } else { "panic:some-drivers" });
                out.qa(&format!("panicked C17 {}", all_panic as u8), if all_panic { "ok panic" } else { "bad c17-drivers-differ" });
                if !all_panic {
                    out.impl_violation(format!(
                        "sig:c17-drivers-differ exactly some of the drivers panicked (taffy {} vtree {} taffy-exact {} vtree-exact {}); tree {}",
                        a.is_err(),
                        b.is_err(),
                        c.is_err(),
                        e.is_err(),
                        d.line()
                    ));
                }
                continue;
            }
        };
        let free = match v_free {
            Some(Ok(f)) => {
                cache_free_done += 1;
                out.count("cache-free:compared");
                Some(f)
            }
            Some(Err(e)) => {
                if e.contains("c17-query-budget") {
                    cache_free_budget += 1;
                    out.count("cache-free:budget-exceeded");
                } else {
                    out.count("cache-free:panic");
                    out.notes.push(format!("case {idx}: cache-free evaluation panicked: {e}"));
                }
                None
            }
            None => {
                out.count("cache-free:skipped-large");
                None
            }
        };
        let mut hidden = vec![];
        desc_hidden_mask(&d, false, &mut hidden);
        // 0 = equal, 1 = only Layout::order of nodes at or below display:none differs, 2 = anything else
        let kind = |a: &LL, b: &LL| -> u8 {
            let mut k = 0u8;
            for (x, y) in [(&a.0, &b.0), (&a.1, &b.1)] {
                if x.len() != y.len() {
                    return 2;
                }
                for (i, order_only) in diff_nodes(x, y) {
                    k = k.max(if order_only && hidden[i] { 1 } else { 2 });
                }
            }
            k
        };
        let drivers_ok = ll_eq(&t_real, &v_real) && ll_eq(&t_exact, &v_exact);
        let memo_kind = free.as_ref().map_or(0, |f| kind(&v_exact, f));
        let lossy_kind = kind(&t_real, &t_exact);
        let memo_ok = memo_kind < 2;
        let lossy_ok = lossy_kind < 2;
        let order_ok = memo_kind != 1 && lossy_kind != 1;
        let mut line = format!(
            "obs C17 {} {} T {} {} {} X {} {}",
            rounding as u8,
            av_pair(avail),
            d.line(),
            ll_tokens(&t_real),
            ll_tokens(&v_real),
            ll_tokens(&t_exact),
            ll_tokens(&v_exact)
        );
        if let Some(f) = &free {
            line.push_str(" F ");
            line.push_str(&ll_tokens(f));
        }
        // neutraliser for a memo difference: exact keys + quiet hits (a PerformLayout hit never follows a body evaluation)
        let quiet = if !memo_ok { vtree_layouts(&d, avail, rounding, Mode::Quiet, false, u64::MAX).ok() } else { None };
        if let Some(q) = &quiet {
            line.push_str(" Q ");
            line.push_str(&ll_tokens(q));
        }
        let memo_stale = !memo_ok && quiet.as_ref().map_or(false, |q| kind(q, free.as_ref().unwrap()) < 2);
        let sig = if !drivers_ok {
            "c17-drivers-differ"
        } else if memo_stale {
            "c17-stale-layout-after-compute-size"
        } else if !memo_ok {
            "c17-exact-memo-differs-from-cache-free"
        } else if !lossy_ok {
            "c17-lossy-cache-key"
        } else if !order_ok {
            "c17-hidden-child-order"
        } else {
            ""
        };
        if sig.is_empty() && idx >= C17_FULL_LINES && cfg.only_case.is_none() {
            out.qa("quiet C17 1", "ok 1");
        } else {
            out.qa(&line, &if sig.is_empty() { "ok".to_string() } else { format!("bad {sig}") });
        }
        let mut report = |out: &mut Out, sig: &'static str, text: String| {
            let k = reported.entry(sig).or_insert(0);
            *k += 1;
            if *k <= 5 {
                out.impl_violation(format!("sig:{sig} {text}; avail {} rounding {rounding}; tree: {}", avail_brief(avail), tree_brief(&d)));
            } else {
                out.impl_violation(format!("sig:{sig} (replay this case for the details)"));
            }
        };
        if !drivers_ok {
            drivers += 1;
            let t = if !same_layouts(&t_real.0, &v_real.0) {
                format!("TaffyTree ≠ documented low-level driver (unrounded): {}", first_diff(&t_real.0, &v_real.0))
            } else if !same_layouts(&t_real.1, &v_real.1) {
                format!("TaffyTree ≠ documented low-level driver (layout()): {}", first_diff(&t_real.1, &v_real.1))
            } else {
                format!("TaffyTree ≠ documented low-level driver in exact-key mode: {}", first_diff(&t_exact.0, &v_exact.0))
            };
            report(out, "c17-drivers-differ", t);
        }
        if !memo_ok {
            let f = free.as_ref().unwrap();
            if memo_stale {
                stale += 1;
                report(out, "c17-stale-layout-after-compute-size", format!("exact-key memo ≠ cache-free evaluation, equal with quiet hits: {}", first_diff(&v_exact.0, &f.0)));
            } else {
                memo += 1;
                report(out, "c17-exact-memo-differs-from-cache-free", format!("exact-key memo ≠ cache-free evaluation (also with quiet hits): {}", first_diff(&v_exact.0, &f.0)));
            }
        }
        if !lossy_ok {
            lossy += 1;
            report(out, "c17-lossy-cache-key", format!("real cache ≠ exact-key memo on one fresh pass: {}", first_diff(&t_real.0, &t_exact.0)));
        }
        if !order_ok {
            order += 1;
            let (a, b, what) = if memo_kind == 1 { (&v_exact.0, &free.as_ref().unwrap().0, "exact-key memo vs cache-free") } else { (&t_real.0, &t_exact.0, "real cache vs exact-key memo") };
            report(out, "c17-hidden-child-order", format!("only Layout::order of display:none nodes differs ({what}): {}", first_diff(a, b)));
        }
    }
    format!(
        "\"c17_counts\": {{\"cache_free_compared\": {cache_free_done}, \"cache_free_budget_exceeded\": {cache_free_budget}, \"drivers_differ\": {drivers},          \"exact_memo_differs_from_cache_free\": {memo}, \"real_cache_differs_from_exact_memo\": {lossy}, \"only_hidden_child_order_differs\": {order}, \"exact_memo_differs_but_quiet_hits_agree\": {stale}}}"
    )
}

fn tree_brief(d: &TreeDesc) -> String {
    let kids: Vec<String> = d.children.iter().map(tree_brief).collect();
    format!("({} ctx {}{}{})", style_brief(&d.style), ctx_brief(&d.ctx), if kids.is_empty() { "" } else { " " }, kids.join(" "))
}
