//! tvharness <property> --out DIR [--tier quick|thorough] [--seed N] [--case K] [--cases N] [--scale K]
//! Runs the real taffy code in-process on generated cases and writes
//!   DIR/req.txt   one request per line (the Lean driver reads this)
//!   DIR/impl.txt  the implementation's canonical answer per request
//!   DIR/meta.json statistics of what was generated
mod common;
mod stylefmt;
mod treegen;
mod c02;
mod c10tree;
mod hist;
mod c09;
mod evaltree;
mod pairs;
mod c07;
mod c19;
mod c11;
mod c10;
mod c08;
mod c03;
mod c14;
mod c13;
mod c18;
mod c15;
mod flexcorr;
mod gridfmt;
mod gridcorr;

use common::*;

fn main() {
    let args: Vec<String> = std::env::args().collect();
    if args.len() < 2 {
        eprintln!("usage: tvharness <property> --out DIR [--tier T] [--seed N] [--case K] [--cases N] [--scale K]");
        std::process::exit(2);
    }
    let prop = args[1].clone();
    let mut out_dir = String::from("/verif/.cache/run/tmp");
    let mut cfg = Cfg { tier: "quick".into(), seed: 1, only_case: None, cases: None, scale: 1, skip: vec![] };
    let mut from = 0u64;
    let mut to = 0u64;
    let mut i = 2;
    while i < args.len() {
        match args[i].as_str() {
            "--out" => {
                out_dir = args[i + 1].clone();
                i += 2
            }
            "--tier" => {
                cfg.tier = args[i + 1].clone();
                i += 2
            }
            "--seed" => {
                cfg.seed = args[i + 1].parse().unwrap();
                i += 2
            }
            "--case" => {
                cfg.only_case = Some(args[i + 1].parse().unwrap());
                i += 2
            }
            "--from" => {
                from = args[i + 1].parse().unwrap();
                i += 2
            }
            "--to" => {
                to = args[i + 1].parse().unwrap();
                i += 2
            }
            "--cases" => {
                cfg.cases = Some(args[i + 1].parse().unwrap());
                i += 2
            }
            "--skip" => {
                cfg.skip.push(args[i + 1].parse().unwrap());
                i += 2
            }
            "--scale" => {
                cfg.scale = args[i + 1].parse().unwrap();
                i += 2
            }
            x => {
                eprintln!("unknown arg {x}");
                std::process::exit(2)
            }
        }
    }
    // panics inside the implementation are caught per case; keep the default hook quiet
    std::panic::set_hook(Box::new(|_| {}));
    if prop == "C03worker" {
        c03::worker(cfg.seed, from, to);
        return;
    }
    if prop == "GRIDWITNESS" {
        gridcorr::witnesses();
        return;
    }
    let mut out = Out::new(&out_dir);
    let extra = match prop.as_str() {
        "C02" => c02::run(&cfg, &mut out),
        "C01" => hist::run_c01(&cfg, &mut out),
        "C01trace" => hist::run_c01_trace(&cfg, &mut out),
        "C16" => hist::run_c16(&cfg, &mut out),
        "C17" => hist::run_c17(&cfg, &mut out),
        "C09" => c09::run(&cfg, &mut out),
        "EVAL" => evaltree::run(&cfg, &mut out),
        "C04" => pairs::run_c04(&cfg, &mut out),
        "C05" => pairs::run_c05(&cfg, &mut out),
        "C06" => pairs::run_c06(&cfg, &mut out),
        "C12" => pairs::run_c12(&cfg, &mut out),
        "C07" => c07::run(&cfg, &mut out),
        "C19" => c19::run(&cfg, &mut out),
        "C11" => c11::run(&cfg, &mut out),
        "C10" => c10::run(&cfg, &mut out),
        "C08" => c08::run(&cfg, &mut out),
        "C03" => c03::run(&cfg, &mut out),
        "C14" => c14::run(&cfg, &mut out),
        "C13" => c13::run(&cfg, &mut out),
        "C18" => c18::run(&cfg, &mut out),
        "C15" => c15::run(&cfg, &mut out),
        "FLEX" => flexcorr::run(&cfg, &mut out),
        "GRID" => gridcorr::run(&cfg, &mut out),
        _ => {
            eprintln!("unknown property {prop}");
            std::process::exit(2)
        }
    };
    out.finish(&out_dir, &extra);
}
