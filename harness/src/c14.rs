//! C14 — drive the structural API of the real `TaffyTree` with random edit histories.
//!
//! Streams (first request line of every case is `stream <label>`):
//!   main       precondition-respecting histories (ids live; attach only while detached; set_children duplicate-free,
//!              may reparent; remove_children_range in range). Compared with the model AND monitored against the spec.
//!   malformed  violates the precondition (double attachment, duplicates, dead ids, non-children): the model must
//!              predict the exact resulting state or `panic`. No theorem is claimed there.
//!   badrange   like main, then one out-of-range `remove_children_range` (known C03 finding): both sides must say `panic`.
//!   torn       fixed cases that go on AFTER a panic: the model's torn state at the panic site (what each method had already written
//!              when it panicked, the `Drain` guard of remove_children_range, `remove`'s mark_dirty(parent) site on a dangling
//!              parent) is compared with what the real tree holds afterwards.
//! After a `panic` answer the tree may be torn, so (in every other stream) the case ends there.
use crate::common::*;
use std::panic::{catch_unwind, AssertUnwindSafe};
use taffy::prelude::*;
use taffy::{TaffyError, TaffyTree};

const MAX_LIVE: usize = 12;

#[derive(Clone, Debug)]
enum Op {
    NewLeaf,
    NewLeafCtx(u32),
    NewWithChildren(Vec<usize>),
    Clear,
    Remove(usize),
    SetCtx(usize, Option<u32>),
    GetCtx(usize),
    AddChild(usize, usize),
    InsertChild(usize, usize, usize),
    SetChildren(usize, Vec<usize>),
    RemoveChild(usize, usize),
    RemoveChildAt(usize, usize),
    RemoveRange(usize, usize, usize),
    ReplaceChild(usize, usize, usize),
    ChildAt(usize, usize),
    Count,
    ChildCount(usize),
    Children(usize),
    Parent(usize),
}

fn sid(id: NodeId) -> String {
    let v: u64 = id.into();
    format!("{}.{}", v & 0xffff_ffff, v >> 32)
}
fn sids(ids: &[NodeId]) -> String {
    if ids.is_empty() {
        "-".into()
    } else {
        ids.iter().map(|i| sid(*i)).collect::<Vec<_>>().join(",")
    }
}
fn serr(e: &TaffyError) -> String {
    match e {
        TaffyError::ChildIndexOutOfBounds { parent, child_index, child_count } => format!("err {} {} {}", sid(*parent), child_index, child_count),
        TaffyError::InvalidParentNode(n) => format!("err-invalid-parent {}", sid(*n)),
        TaffyError::InvalidChildNode(n) => format!("err-invalid-child {}", sid(*n)),
        TaffyError::InvalidInputNode(n) => format!("err-invalid-input {}", sid(*n)),
    }
}

struct Sim {
    tree: TaffyTree<u32>,
    /// every node created in this case, in creation order (ops refer to nodes by index into this list)
    all: Vec<NodeId>,
    alive: Vec<bool>,
}

fn guard<T>(f: impl FnOnce() -> T) -> Option<T> {
    catch_unwind(AssertUnwindSafe(f)).ok()
}

impl Sim {
    fn new() -> Self {
        Sim { tree: TaffyTree::new(), all: vec![], alive: vec![] }
    }
    fn live(&self) -> Vec<usize> {
        (0..self.all.len()).filter(|i| self.alive[*i]).collect()
    }
    fn dead(&self) -> Vec<usize> {
        (0..self.all.len()).filter(|i| !self.alive[*i]).collect()
    }
    fn handle_of(&self, id: NodeId) -> Option<usize> {
        self.all.iter().position(|x| *x == id)
    }
    fn detached(&self) -> Vec<usize> {
        self.live().into_iter().filter(|h| guard(|| self.tree.parent(self.all[*h])).map_or(false, |p| p.is_none())).collect()
    }
    fn kids(&self, h: usize) -> Vec<NodeId> {
        guard(|| self.tree.children(self.all[h]).unwrap()).unwrap_or_default()
    }

    fn dump_ids(&self, ids: &[NodeId]) -> String {
        let t = &self.tree;
        let mut parts = vec![format!("n={}", t.total_node_count())];
        for &id in ids {
            let p = match guard(|| t.parent(id)) {
                None => "!".to_string(),
                Some(None) => "-".to_string(),
                Some(Some(x)) => sid(x),
            };
            let c = guard(|| t.children(id));
            let (cs, a) = match &c {
                Some(Ok(v)) => {
                    let mut a = vec![];
                    for i in 0..=v.len() {
                        a.push(match guard(|| t.child_at_index(id, i)) {
                            None => "!".to_string(),
                            Some(Ok(x)) => sid(x),
                            Some(Err(TaffyError::ChildIndexOutOfBounds { child_index, child_count, .. })) => format!("E{}/{}", child_index, child_count),
                            Some(Err(e)) => serr(&e).replace(' ', "_"),
                        });
                    }
                    (sids(v), a.join(","))
                }
                Some(Err(e)) => (serr(e).replace(' ', "_"), "?".to_string()),
                None => (
                    "!".to_string(),
                    match guard(|| t.child_at_index(id, 0)) {
                        None => "!".to_string(),
                        Some(Ok(x)) => sid(x),
                        Some(Err(e)) => serr(&e).replace(' ', "_"),
                    },
                ),
            };
            let k = match guard(|| t.child_count(id)) {
                None => "!".to_string(),
                Some(n) => n.to_string(),
            };
            let x = match t.get_node_context(id) {
                None => "-".to_string(),
                Some(v) => v.to_string(),
            };
            parts.push(format!("{} p={} c={} k={} a={} x={}", sid(id), p, cs, k, a, x));
        }
        parts.join(" | ")
    }

    /// the conclusion of the invariant theorem evaluated directly on the implementation (main stream only)
    fn oracle(&self, out: &mut Out) {
        let t = &self.tree;
        let live: Vec<NodeId> = self.live().iter().map(|h| self.all[*h]).collect();
        if t.total_node_count() != live.len() {
            out.impl_violation(format!("sig:c14-count total_node_count {} != live {}", t.total_node_count(), live.len()));
        }
        let mut seen: Vec<NodeId> = vec![];
        for &p in &live {
            let cs = match guard(|| t.children(p).unwrap()) {
                Some(c) => c,
                None => {
                    out.impl_violation(format!("sig:c14-live-panics children({}) panicked for a live node", sid(p)));
                    continue;
                }
            };
            for &c in &cs {
                if !live.contains(&c) {
                    out.impl_violation(format!("sig:c14-dead-child {} lists dead child {}", sid(p), sid(c)));
                } else if guard(|| t.parent(c)) != Some(Some(p)) {
                    out.impl_violation(format!("sig:c14-parent-mismatch {} in children({}) but parent differs", sid(c), sid(p)));
                }
                if seen.contains(&c) {
                    out.impl_violation(format!("sig:c14-duplicate {} occurs twice over all child lists", sid(c)));
                }
                seen.push(c);
            }
        }
        for &c in &live {
            if let Some(Some(p)) = guard(|| t.parent(c)) {
                let ok = live.contains(&p) && guard(|| t.children(p).unwrap()).map_or(false, |v| v.contains(&c));
                if !ok {
                    out.impl_violation(format!("sig:c14-parent-dangling parent({}) = {} which does not list it", sid(c), sid(p)));
                }
            }
        }
    }

    fn id(&self, h: usize) -> NodeId {
        self.all[h]
    }
    fn ids(&self, hs: &[usize]) -> Vec<NodeId> {
        hs.iter().map(|h| self.all[*h]).collect()
    }

    /// run one op on the real tree; returns (request, answer)
    fn exec(&mut self, op: &Op) -> (String, String) {
        fn unit_res(r: Option<Result<(), TaffyError>>) -> String {
            match r {
                None => "panic".into(),
                Some(Ok(())) => "ok".into(),
                Some(Err(e)) => serr(&e),
            }
        }
        fn id_res(r: Option<Result<NodeId, TaffyError>>) -> String {
            match r {
                None => "panic".into(),
                Some(Ok(n)) => format!("ok {}", sid(n)),
                Some(Err(e)) => serr(&e),
            }
        }
        match op {
            Op::NewLeaf | Op::NewLeafCtx(_) | Op::NewWithChildren(_) => {
                let (req, r) = match op {
                    Op::NewLeaf => ("new_leaf".to_string(), guard(|| self.tree.new_leaf(Style::default()))),
                    Op::NewLeafCtx(x) => (format!("new_leaf_ctx {x}"), guard(|| self.tree.new_leaf_with_context(Style::default(), *x))),
                    Op::NewWithChildren(cs) => {
                        let cs = self.ids(cs);
                        (format!("new_with_children {}", sids(&cs)), guard(|| self.tree.new_with_children(Style::default(), &cs)))
                    }
                    _ => unreachable!(),
                };
                if let Some(Ok(n)) = &r {
                    self.all.push(*n);
                    self.alive.push(true);
                }
                (req, id_res(r))
            }
            Op::Clear => {
                let r = guard(|| self.tree.clear());
                for a in self.alive.iter_mut() {
                    *a = false;
                }
                ("clear".into(), if r.is_some() { "ok".into() } else { "panic".into() })
            }
            Op::Remove(h) => {
                let n = self.id(*h);
                let r = guard(|| self.tree.remove(n));
                if let Some(Ok(_)) = &r {
                    self.alive[*h] = false;
                }
                (format!("remove {}", sid(n)), id_res(r))
            }
            Op::SetCtx(h, x) => {
                let n = self.id(*h);
                let r = guard(|| self.tree.set_node_context(n, *x));
                (format!("set_ctx {} {}", sid(n), x.map_or("-".to_string(), |v| v.to_string())), unit_res(r))
            }
            Op::GetCtx(h) => {
                let n = self.id(*h);
                let r = self.tree.get_node_context(n).copied();
                (format!("get_ctx {}", sid(n)), format!("ok {}", r.map_or("-".to_string(), |v| v.to_string())))
            }
            Op::AddChild(p, c) => {
                let (p, c) = (self.id(*p), self.id(*c));
                let r = guard(|| self.tree.add_child(p, c));
                (format!("add_child {} {}", sid(p), sid(c)), unit_res(r))
            }
            Op::InsertChild(p, i, c) => {
                let (p, c) = (self.id(*p), self.id(*c));
                let r = guard(|| self.tree.insert_child_at_index(p, *i, c));
                (format!("insert_child {} {} {}", sid(p), i, sid(c)), unit_res(r))
            }
            Op::SetChildren(p, cs) => {
                let p = self.id(*p);
                let cs = self.ids(cs);
                let r = guard(|| self.tree.set_children(p, &cs));
                (format!("set_children {} {}", sid(p), sids(&cs)), unit_res(r))
            }
            Op::RemoveChild(p, c) => {
                let (p, c) = (self.id(*p), self.id(*c));
                let r = guard(|| self.tree.remove_child(p, c));
                (format!("remove_child {} {}", sid(p), sid(c)), id_res(r))
            }
            Op::RemoveChildAt(p, i) => {
                let p = self.id(*p);
                let r = guard(|| self.tree.remove_child_at_index(p, *i));
                (format!("remove_child_at {} {}", sid(p), i), id_res(r))
            }
            Op::RemoveRange(p, a, b) => {
                let p = self.id(*p);
                let r = guard(|| self.tree.remove_children_range(p, *a..*b));
                (format!("remove_range {} {} {}", sid(p), a, b), unit_res(r))
            }
            Op::ReplaceChild(p, i, c) => {
                let (p, c) = (self.id(*p), self.id(*c));
                let r = guard(|| self.tree.replace_child_at_index(p, *i, c));
                (format!("replace_child {} {} {}", sid(p), i, sid(c)), id_res(r))
            }
            Op::ChildAt(p, i) => {
                let p = self.id(*p);
                let r = guard(|| self.tree.child_at_index(p, *i));
                (format!("child_at {} {}", sid(p), i), id_res(r))
            }
            Op::Count => ("count".into(), format!("ok {}", self.tree.total_node_count())),
            Op::ChildCount(p) => {
                let p = self.id(*p);
                let r = guard(|| self.tree.child_count(p));
                (format!("child_count {}", sid(p)), r.map_or("panic".to_string(), |n| format!("ok {n}")))
            }
            Op::Children(p) => {
                let p = self.id(*p);
                let r = guard(|| self.tree.children(p));
                (
                    format!("children {}", sid(p)),
                    match r {
                        None => "panic".into(),
                        Some(Ok(v)) => format!("ok {}", sids(&v)),
                        Some(Err(e)) => serr(&e),
                    },
                )
            }
            Op::Parent(n) => {
                let n = self.id(*n);
                let r = guard(|| self.tree.parent(n));
                (
                    format!("parent {}", sid(n)),
                    match r {
                        None => "panic".into(),
                        Some(None) => "ok -".into(),
                        Some(Some(p)) => format!("ok {}", sid(p)),
                    },
                )
            }
        }
    }
}

fn op_name(op: &Op) -> &'static str {
    match op {
        Op::NewLeaf => "new_leaf",
        Op::NewLeafCtx(_) => "new_leaf_ctx",
        Op::NewWithChildren(_) => "new_with_children",
        Op::Clear => "clear",
        Op::Remove(_) => "remove",
        Op::SetCtx(..) => "set_ctx",
        Op::GetCtx(_) => "get_ctx",
        Op::AddChild(..) => "add_child",
        Op::InsertChild(..) => "insert_child",
        Op::SetChildren(..) => "set_children",
        Op::RemoveChild(..) => "remove_child",
        Op::RemoveChildAt(..) => "remove_child_at",
        Op::RemoveRange(..) => "remove_range",
        Op::ReplaceChild(..) => "replace_child",
        Op::ChildAt(..) => "child_at",
        Op::Count => "count",
        Op::ChildCount(_) => "child_count",
        Op::Children(_) => "children",
        Op::Parent(_) => "parent",
    }
}

/// boundary-heavy index for a list of length `len`
fn gen_index(r: &mut Rng, len: usize) -> usize {
    match r.below(8) {
        0 | 1 => 0,
        2 | 3 => len,
        4 => len + 1,
        5 => len.saturating_sub(1),
        6 => len + 1 + r.below(3),
        _ => r.below(len + 1),
    }
}

/// index for operations whose valid range is 0..len (remove/replace/child_at): len is the first invalid one
fn gen_index_lt(r: &mut Rng, len: usize) -> usize {
    match r.below(8) {
        0 | 1 => 0,
        2 | 3 => len.saturating_sub(1),
        4 | 5 => r.below(len.max(1)),
        6 => len,
        _ => len + 1 + r.below(3),
    }
}

fn subset(r: &mut Rng, pool: &[usize], max: usize) -> Vec<usize> {
    let mut p = pool.to_vec();
    // Fisher–Yates prefix
    let k = r.below(max.min(p.len()) + 1);
    for i in 0..k {
        let j = i + r.below(p.len() - i);
        p.swap(i, j);
    }
    p.truncate(k);
    p
}

/// a precondition-respecting operation for the current state
fn gen_main(s: &Sim, r: &mut Rng, churn: bool) -> Op {
    let live = s.live();
    let det = s.detached();
    if live.is_empty() {
        return if r.chance(1, 2) { Op::NewLeaf } else { Op::NewLeafCtx(r.below(9) as u32) };
    }
    let with_kids: Vec<usize> = live.iter().copied().filter(|h| !s.kids(*h).is_empty()).collect();
    for _ in 0..20 {
        let roll = r.below(if churn { 130 } else { 100 });
        // operations that read or shrink a list mostly go to parents that have children
        let wants_kids = matches!(roll, 59..=89);
        let p = if wants_kids && !with_kids.is_empty() && r.chance(3, 4) { *r.pick(&with_kids) } else { *r.pick(&live) };
        let len = s.kids(p).len();
        let op = match roll {
            0..=9 if live.len() < MAX_LIVE => {
                if r.chance(1, 3) {
                    Op::NewLeafCtx(r.below(9) as u32)
                } else {
                    Op::NewLeaf
                }
            }
            10..=15 if live.len() < MAX_LIVE => Op::NewWithChildren(subset(r, &det, 4)),
            16..=24 => Op::Remove(p),
            25..=36 if !det.is_empty() => Op::AddChild(p, *r.pick(&det)),
            37..=48 if !det.is_empty() => Op::InsertChild(p, gen_index(r, len), *r.pick(&det)),
            49..=58 => Op::SetChildren(p, subset(r, &live, 5)),
            59..=63 if len > 0 => {
                let c = s.kids(p)[r.below(len)];
                Op::RemoveChild(p, s.handle_of(c).unwrap())
            }
            64..=71 => Op::RemoveChildAt(p, gen_index_lt(r, len)),
            72..=78 => {
                // in-range ranges only, including empty ones and the whole list
                let a = match r.below(4) {
                    0 => 0,
                    1 => len,
                    _ => r.below(len + 1),
                };
                let b = match r.below(4) {
                    0 => a,
                    1 => len,
                    _ => a + r.below(len - a + 1),
                };
                Op::RemoveRange(p, a, b)
            }
            79..=87 if !det.is_empty() => Op::ReplaceChild(p, gen_index_lt(r, len), *r.pick(&det)),
            88..=89 => Op::ChildAt(p, gen_index_lt(r, len)),
            90 => Op::Count,
            91 => Op::ChildCount(p),
            92 => Op::Children(p),
            93 => Op::Parent(p),
            94..=96 => Op::SetCtx(p, if r.chance(1, 3) { None } else { Some(r.below(9) as u32) }),
            97 => {
                // stale contexts of removed ids are observable but harmless
                let dead = s.dead();
                if !dead.is_empty() && r.chance(1, 2) {
                    Op::GetCtx(*r.pick(&dead))
                } else {
                    Op::GetCtx(p)
                }
            }
            98 => Op::Clear,
            99 => Op::NewLeaf,
            // churn: remove-then-create to force slot reuse
            100..=114 => Op::Remove(p),
            115..=129 if live.len() < MAX_LIVE => Op::NewLeaf,
            _ => continue,
        };
        return op;
    }
    Op::Count
}

/// an operation that violates the precondition (when the state allows one)
fn gen_bad(s: &Sim, r: &mut Rng) -> Option<Op> {
    let live = s.live();
    let dead = s.dead();
    if live.is_empty() {
        return None;
    }
    let p = *r.pick(&live);
    let attached: Vec<usize> = live.iter().copied().filter(|h| !s.detached().contains(h)).collect();
    let len = s.kids(p).len();
    match r.below(12) {
        0 | 1 if !attached.is_empty() => Some(Op::AddChild(p, *r.pick(&attached))),
        2 if !attached.is_empty() => Some(Op::InsertChild(p, r.below(len + 1), *r.pick(&attached))),
        3 if len > 0 => {
            // replace by an attached node, or by the very child that sits there
            if r.chance(1, 2) || attached.is_empty() {
                let i = r.below(len);
                Some(Op::ReplaceChild(p, i, s.handle_of(s.kids(p)[i])?))
            } else {
                Some(Op::ReplaceChild(p, r.below(len), *r.pick(&attached)))
            }
        }
        4 | 5 => {
            // duplicates in set_children
            let mut cs = subset(r, &live, 3);
            if cs.is_empty() {
                cs.push(*r.pick(&live));
            }
            let d = *r.pick(&cs);
            let at = r.below(cs.len() + 1);
            cs.insert(at, d);
            Some(Op::SetChildren(p, cs))
        }
        6 => {
            let mut cs = subset(r, &live, 3);
            if !attached.is_empty() {
                cs.push(*r.pick(&attached));
            }
            if r.chance(1, 2) && !cs.is_empty() {
                let d = *r.pick(&cs);
                cs.push(d);
            }
            if live.len() < MAX_LIVE {
                Some(Op::NewWithChildren(cs))
            } else {
                None
            }
        }
        7 => Some(Op::RemoveChild(p, *r.pick(&live))), // usually not a child: unwrap panics
        8 if !dead.is_empty() => {
            // a dead id somewhere
            let d = *r.pick(&dead);
            Some(match r.below(8) {
                0 => Op::AddChild(p, d),
                1 => Op::AddChild(d, p),
                2 => Op::Remove(d),
                3 => Op::SetChildren(p, vec![d]),
                4 => Op::InsertChild(p, 0, d),
                5 => Op::Parent(d),
                6 => Op::SetCtx(d, Some(3)),
                _ => Op::NewWithChildren(vec![d]),
            })
        }
        9 => Some(Op::RemoveRange(p, r.below(len + 2), r.below(len + 3))), // may be out of range
        _ => None,
    }
}

fn finish_op(s: &mut Sim, out: &mut Out, op: &Op, monitored: bool) -> bool {
    let (req, ans) = s.exec(op);
    out.count(&format!("op:{}", op_name(op)));
    if ans.starts_with("err") {
        out.count(&format!("err:{}", op_name(op)));
    }
    out.qa(&req, &ans);
    if ans == "panic" {
        out.count(&format!("panic:{}", op_name(op)));
        return false;
    }
    let live = s.ids(&s.live());
    let d = s.dump_ids(&live);
    let sp = |v: &[NodeId]| v.iter().map(|i| sid(*i)).collect::<Vec<_>>().join(" ");
    out.qa(format!("dump {}", sp(&live)).trim_end(), &d);
    let dead = s.ids(&s.dead());
    if !dead.is_empty() {
        let dd = s.dump_ids(&dead);
        out.qa(&format!("dumpdead {}", sp(&dead)), &dd);
    }
    if monitored {
        s.oracle(out);
    }
    true
}

fn run_fixed(out: &mut Out, label: &str, ops: &[Op]) {
    let mut s = Sim::new();
    out.qa(&format!("stream {label}"), "ok");
    out.nontrivial();
    for op in ops {
        if !finish_op(&mut s, out, op, label.starts_with("main")) && !label.starts_with("torn") {
            break;
        }
    }
}

fn run_random(out: &mut Out, r: &mut Rng, label: &str) {
    let mut s = Sim::new();
    out.qa(&format!("stream {label}"), "ok");
    let len = 4 + r.below(36);
    let churn = r.chance(1, 3);
    let bad_rate = 2 + r.below(6) as u32;
    let mut reused = false;
    let mut edits = 0;
    for step in 0..len {
        let op = match label {
            "malformed" => {
                if step > 2 && r.chance(1, bad_rate) {
                    gen_bad(&s, r).unwrap_or_else(|| gen_main(&s, r, churn))
                } else {
                    gen_main(&s, r, churn)
                }
            }
            "badrange" if step + 1 == len => {
                let live = s.live();
                if live.is_empty() {
                    Op::NewLeaf
                } else {
                    let p = *r.pick(&live);
                    let n = s.kids(p).len();
                    if r.chance(1, 3) {
                        Op::RemoveRange(p, n + 1 + r.below(2), n + 1 + r.below(3)) // start beyond the end
                    } else if r.chance(1, 2) {
                        Op::RemoveRange(p, r.below(n + 1), n + 1 + r.below(3)) // end beyond the end
                    } else {
                        Op::RemoveRange(p, 1 + r.below(n + 1), 0) // start > end
                    }
                }
            }
            _ => gen_main(&s, r, churn),
        };
        if !matches!(op, Op::Count | Op::ChildCount(_) | Op::Children(_) | Op::Parent(_) | Op::ChildAt(..) | Op::GetCtx(_)) {
            edits += 1;
        }
        let before = s.all.len();
        if !finish_op(&mut s, out, &op, label == "main") {
            break;
        }
        if s.all.len() > before {
            let v: u64 = s.all[before].into();
            if (v >> 32) > 1 {
                reused = true;
                out.count("slot-reused");
            }
        }
    }
    if edits >= 3 {
        out.nontrivial();
    }
    if reused {
        out.count("case:with-slot-reuse");
    }
}

pub fn run(cfg: &Cfg, out: &mut Out) -> String {
    let n = cfg.n(4000, 150_000);
    let mut idx = 0u64;
    use Op::*;
    let fixed: Vec<(&str, Vec<Op>)> = vec![
        // slot reuse: the middle slot is freed and handed out again with a bumped version; clear rebuilds the free list
        ("main", vec![NewLeaf, NewLeafCtx(7), NewLeaf, Remove(1), NewLeaf, GetCtx(1), GetCtx(3), Remove(0), Remove(2), NewLeaf, NewLeaf, NewLeaf, Clear, NewLeaf, NewLeaf, Count]),
        // taffy's own remove_node_should_detach_hierarchy
        ("main", vec![NewLeaf, NewWithChildren(vec![0]), NewWithChildren(vec![1]), Remove(1), Children(2), Children(0), Parent(0)]),
        // the precondition admits cycles: a detached node may be attached below its own descendant, or to itself
        ("main", vec![NewLeaf, NewLeaf, NewLeaf, AddChild(0, 1), AddChild(1, 0), AddChild(2, 2), Remove(2), Remove(0), Parent(1), Children(1)]),
        // boundary indices on empty lists, all error paths
        ("main", vec![NewLeaf, NewLeaf, NewLeaf, InsertChild(0, 1, 1), RemoveChildAt(0, 0), ReplaceChild(0, 0, 1), ChildAt(0, 0), RemoveRange(0, 0, 0), InsertChild(0, 0, 1), InsertChild(0, 2, 2), InsertChild(0, 1, 2), RemoveChildAt(0, 2), ReplaceChild(0, 2, 0), RemoveRange(0, 2, 2), RemoveRange(0, 0, 1)]),
        // set_children reparents
        ("main", vec![NewLeaf, NewLeaf, NewLeaf, NewWithChildren(vec![0, 1]), NewWithChildren(vec![2]), SetChildren(4, vec![1, 2, 0]), SetChildren(3, vec![4, 3]), SetChildren(3, vec![])]),
        // malformed: double attachment, then removing the child leaves a dead id in the first parent's list
        ("malformed", vec![NewLeaf, NewLeaf, NewLeaf, AddChild(0, 2), AddChild(1, 2), Remove(2), Children(0), Remove(0)]),
        // malformed: replacing a child by itself leaves it listed with parent None
        ("malformed", vec![NewLeaf, NewLeaf, AddChild(0, 1), ReplaceChild(0, 0, 1), Parent(1), Children(0), SetChildren(0, vec![1, 1])]),
        // malformed: duplicate in set_children whose second occurrence is not in the old list: unwrap panics
        ("malformed", vec![NewLeaf, NewLeaf, SetChildren(0, vec![1, 1])]),
        // malformed: dead ids
        ("malformed", vec![NewLeaf, NewLeaf, Remove(1), AddChild(0, 1)]),
        ("malformed", vec![NewLeaf, NewLeaf, Remove(1), NewLeaf, AddChild(1, 0)]),
        // known C03 finding: out-of-range remove_children_range panics
        ("badrange", vec![NewLeaf, NewLeaf, NewLeaf, AddChild(0, 1), AddChild(0, 2), RemoveRange(0, 1, 5)]),
        ("badrange", vec![NewLeaf, NewLeaf, AddChild(0, 1), RemoveRange(0, 1, 0)]),
        // torn: add_child(dead, b) panics after parents[b] = Some(dead); remove(b) then panics in mark_dirty(dead) and b stays
        ("torn", vec![NewLeaf, NewLeaf, NewLeaf, Remove(2), AddChild(2, 1), Parent(1), Remove(1), Count, Children(1)]),
        // torn: a dead id in a child list (double attachment, then removal); remove_children_range panics on it in the loop and the
        // Drain guard still removes the whole range; the second child keeps its parent
        ("torn", vec![NewLeaf, NewLeaf, NewLeaf, NewLeaf, AddChild(0, 2), AddChild(1, 2), AddChild(0, 3), Remove(2), RemoveRange(0, 0, 2), Children(0), Parent(3), RemoveRange(0, 0, 0)]),
        // torn: new_with_children(dead) has inserted into `nodes` when it panics: the three maps leave lock-step
        ("torn", vec![NewLeaf, NewLeaf, Remove(1), NewWithChildren(vec![1]), Count, NewLeaf, Count, Children(2), Parent(2), AddChild(0, 2), Remove(2), Count]),
        // torn: set_children with a dead new child: the old children are already detached, the list is not replaced
        ("torn", vec![NewLeaf, NewLeaf, NewLeaf, AddChild(0, 1), Remove(2), SetChildren(0, vec![2]), Children(0), Parent(1), SetChildren(0, vec![1]), Children(0)]),
    ];
    for (label, ops) in &fixed {
        if cfg.wants(idx) {
            out.begin_case(idx, &format!("fixed-{label}"));
            run_fixed(out, label, ops);
        }
        idx += 1;
    }
    for i in 0..n {
        if cfg.wants(idx) {
            let mut r = Rng::for_case(cfg.seed, idx);
            let label = match i % 10 {
                0..=5 => "main",
                6..=8 => "malformed",
                _ => "badrange",
            };
            out.begin_case(idx, label);
            run_random(out, &mut r, label);
        }
        idx += 1;
    }
    String::new()
}
