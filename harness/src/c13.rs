//! C13 — pixel rounding. Real `TaffyTree`s with fractional lengths are laid out; every node's `unrounded_layout` is the
//! request, every node's `layout()` the implementation's answer. Histories of repeated passes, `mark_dirty` and
//! `enable_rounding`/`disable_rounding` toggles exercise the "never drifts" clauses (implementation-side oracle + model).
use crate::common::*;
use taffy::prelude::*;
use taffy::{Layout, Overflow, Point};

struct TNode {
    id: NodeId,
    children: Vec<TNode>,
}

fn lay_tokens(l: &Layout) -> String {
    format!(
        "{} {} {} {} {} {} {} {} {} {} {} {} {} {} {} {} {} {} {} {} {}",
        l.order,
        hx(l.location.x),
        hx(l.location.y),
        hx(l.size.width),
        hx(l.size.height),
        hx(l.content_size.width),
        hx(l.content_size.height),
        hx(l.scrollbar_size.width),
        hx(l.scrollbar_size.height),
        hx(l.border.left),
        hx(l.border.right),
        hx(l.border.top),
        hx(l.border.bottom),
        hx(l.padding.left),
        hx(l.padding.right),
        hx(l.padding.top),
        hx(l.padding.bottom),
        hx(l.margin.left),
        hx(l.margin.right),
        hx(l.margin.top),
        hx(l.margin.bottom)
    )
}

fn ser_unrounded(t: &TaffyTree<()>, n: &TNode, s: &mut String) {
    if !s.is_empty() {
        s.push(' ');
    }
    s.push_str(&lay_tokens(t.unrounded_layout(n.id)));
    s.push_str(&format!(" {}", n.children.len()));
    for c in &n.children {
        ser_unrounded(t, c, s);
    }
}
fn ser_layout(t: &TaffyTree<()>, n: &TNode, s: &mut String, unrounded: bool) {
    if !s.is_empty() {
        s.push(' ');
    }
    let l = if unrounded { t.unrounded_layout(n.id) } else { t.layout(n.id).unwrap() };
    s.push_str(&lay_tokens(l));
    for c in &n.children {
        ser_layout(t, c, s, unrounded);
    }
}
fn collect_ids(n: &TNode, v: &mut Vec<NodeId>) {
    v.push(n.id);
    for c in &n.children {
        collect_ids(c, v);
    }
}

// ---- value pools -------------------------------------------------------------------------------------------------
const FRAC: [f32; 14] = [0.0, 0.5, 1.5, 2.5, 0.25, 0.75, 1.25, 3.375, 0.125, 7.5, 10.5, 12.25, 20.625, 33.5];
/// not dyadic: f32 additions on the rounding path are inexact (the monitor then allows the stated f32 tolerance)
const NONDY: [f32; 6] = [0.49, 1.51, 0.1, 33.3, 2.4999, 0.5001];
const INTS: [f32; 8] = [0.0, 1.0, 2.0, 3.0, 5.0, 10.0, 20.0, 40.0];
const NEG: [f32; 6] = [-0.5, -1.5, -2.25, -3.0, -7.5, -10.125];
const PCT: [f32; 4] = [0.5, 0.25, 0.125, 0.75];
const PCT_NONDY: [f32; 3] = [0.1, 0.333, 0.9];
const SIZES: [f32; 14] = [10.0, 20.5, 33.25, 50.0, 50.5, 64.125, 75.75, 99.5, 100.0, 120.375, 7.5, 0.5, 1.5, 200.0];

struct Mode {
    /// probability (in 8ths) that a value comes from the integer pool
    int8: u32,
    neg8: u32,
    pct8: u32,
    /// non-dyadic values allowed
    nondy: bool,
}
fn pct(r: &mut Rng, m: &Mode) -> f32 {
    if m.nondy && r.chance(1, 3) {
        *r.pick(&PCT_NONDY)
    } else {
        *r.pick(&PCT)
    }
}

fn val(r: &mut Rng, m: &Mode) -> f32 {
    if r.chance(m.int8, 8) {
        *r.pick(&INTS)
    } else if m.nondy && r.chance(1, 4) {
        *r.pick(&NONDY)
    } else {
        *r.pick(&FRAC)
    }
}
fn lp(r: &mut Rng, m: &Mode) -> LengthPercentage {
    if r.chance(1, 2) {
        LengthPercentage::length(0.0)
    } else if r.chance(m.pct8, 16) {
        LengthPercentage::percent(pct(r, m) / 4.0)
    } else {
        LengthPercentage::length(val(r, m))
    }
}
fn lpa(r: &mut Rng, m: &Mode) -> LengthPercentageAuto {
    match r.below(16) {
        0 => LengthPercentageAuto::auto(),
        1..=8 => LengthPercentageAuto::length(0.0),
        9 | 10 if m.neg8 > 0 && r.chance(m.neg8, 8) => LengthPercentageAuto::length(*r.pick(&NEG)),
        11 if m.pct8 > 0 => LengthPercentageAuto::percent(pct(r, m) / 4.0),
        _ => LengthPercentageAuto::length(val(r, m)),
    }
}
fn dim(r: &mut Rng, m: &Mode, leaf: bool) -> Dimension {
    let k = r.below(16);
    if k < (if leaf { 2 } else { 7 }) {
        Dimension::auto()
    } else if k < 10 && r.chance(m.pct8, 8) {
        Dimension::percent(pct(r, m))
    } else if r.chance(m.int8, 8) {
        Dimension::length(*r.pick(&INTS) * 5.0)
    } else {
        Dimension::length(*r.pick(&SIZES))
    }
}

fn gen_style(r: &mut Rng, m: &Mode, leaf: bool, cnt: &mut Vec<&'static str>) -> Style {
    let mut s = Style::default();
    s.display = match r.below(6) {
        0 | 1 | 2 => Display::Flex,
        3 | 4 => Display::Block,
        _ => Display::Grid,
    };
    if !leaf {
        cnt.push(match s.display {
            Display::Flex => "container:flex",
            Display::Block => "container:block",
            Display::Grid => "container:grid",
            _ => "container:other",
        });
    }
    s.size = Size { width: dim(r, m, leaf), height: dim(r, m, leaf) };
    s.padding = Rect { left: lp(r, m), right: lp(r, m), top: lp(r, m), bottom: lp(r, m) };
    s.border = Rect { left: lp(r, m), right: lp(r, m), top: lp(r, m), bottom: lp(r, m) };
    s.margin = Rect { left: lpa(r, m), right: lpa(r, m), top: lpa(r, m), bottom: lpa(r, m) };
    if r.chance(1, 6) {
        // relative (or absolute) offsets, possibly negative
        if r.chance(1, 3) {
            s.position = Position::Absolute;
            cnt.push("style:absolute");
        }
        let off = |r: &mut Rng| -> LengthPercentageAuto {
            if r.chance(m.neg8, 8) {
                LengthPercentageAuto::length(*r.pick(&NEG))
            } else {
                LengthPercentageAuto::length(val(r, m))
            }
        };
        s.inset = Rect { left: off(r), right: LengthPercentageAuto::auto(), top: off(r), bottom: LengthPercentageAuto::auto() };
        cnt.push("style:inset");
    }
    s.gap = Size { width: lp(r, m), height: lp(r, m) };
    s.flex_grow = *r.pick(&[0.0, 0.0, 1.0, 2.0, 0.5]);
    s.flex_shrink = *r.pick(&[1.0, 1.0, 0.0, 3.0]);
    s.flex_direction = *r.pick(&[FlexDirection::Row, FlexDirection::Column, FlexDirection::RowReverse]);
    if r.chance(1, 5) {
        s.flex_wrap = FlexWrap::Wrap;
    }
    if r.chance(1, 4) {
        s.justify_content = Some(*r.pick(&[JustifyContent::Center, JustifyContent::SpaceBetween, JustifyContent::SpaceAround, JustifyContent::End]));
    }
    if r.chance(1, 4) {
        s.align_items = Some(*r.pick(&[AlignItems::Center, AlignItems::End, AlignItems::Start, AlignItems::Stretch]));
    }
    if s.display == Display::Grid && !leaf {
        let ncol = 1 + r.below(3);
        let mut cols = vec![];
        for _ in 0..ncol {
            cols.push(match r.below(4) {
                0 => fr(1.0),
                1 => length(*r.pick(&SIZES) / 2.0),
                2 => percent(pct(r, m)),
                _ => auto(),
            });
        }
        s.grid_template_columns = cols;
        if r.chance(1, 2) {
            s.grid_template_rows = vec![length(val(r, m) + 10.0), fr(1.0)];
        }
    }
    if r.chance(1, 8) {
        s.overflow = Point { x: *r.pick(&[Overflow::Scroll, Overflow::Visible]), y: *r.pick(&[Overflow::Scroll, Overflow::Hidden]) };
        s.scrollbar_width = *r.pick(&[7.5, 10.0, 0.5, 12.25]);
        cnt.push("style:scrollbar");
    }
    s
}

fn gen_tree(r: &mut Rng, m: &Mode, t: &mut TaffyTree<()>, depth: usize, budget: &mut usize, cnt: &mut Vec<&'static str>) -> TNode {
    // budget counts nodes still allowed (this node already paid for)
    let mut children = vec![];
    if depth < 4 && *budget > 0 {
        let want = if depth == 0 { 1 + r.below(4) } else { r.below(4) };
        for _ in 0..want {
            if *budget == 0 {
                break;
            }
            *budget -= 1;
            children.push(gen_tree(r, m, t, depth + 1, budget, cnt));
        }
    }
    let leaf = children.is_empty();
    let style = gen_style(r, m, leaf, cnt);
    let ids: Vec<NodeId> = children.iter().map(|c| c.id).collect();
    let id = if leaf { t.new_leaf(style).unwrap() } else { t.new_with_children(style, &ids).unwrap() };
    TNode { id, children }
}

fn gen_av(r: &mut Rng) -> Size<AvailableSpace> {
    let one = |r: &mut Rng| match r.below(6) {
        0 => AvailableSpace::MaxContent,
        1 => AvailableSpace::MinContent,
        _ => AvailableSpace::Definite(*r.pick(&SIZES) * *r.pick(&[1.0, 2.0, 4.0])),
    };
    Size { width: one(r), height: one(r) }
}

// ---- statistics about the hypotheses of edge_commutes on a laid-out tree -----------------------------------------
fn edge_stats(t: &TaffyTree<()>, n: &TNode, depth: usize, anc_int: (bool, bool), abs: (f64, f64), out: &mut Out) {
    let u = t.unrounded_layout(n.id);
    let near = (abs.0 + u.location.x as f64, abs.1 + u.location.y as f64);
    let half = |v: f64| (v * 2.0).fract() == 0.0 && v.fract() != 0.0;
    for (ai, e) in [(anc_int.0, near.0), (anc_int.1, near.1)] {
        if ai && !half(e) {
            out.count(&format!("edge:eligible:depth{}", depth.min(4)));
            if e.fract() != 0.0 {
                out.count("edge:eligible:fractional");
            }
            if e < 0.0 {
                out.count("edge:eligible:negative");
            }
        } else if ai {
            out.count("edge:excluded:half-pixel");
        } else {
            out.count("edge:excluded:fractional-ancestor");
        }
    }
    let ai = (anc_int.0 && u.location.x.fract() == 0.0, anc_int.1 && u.location.y.fract() == 0.0);
    for c in &n.children {
        edge_stats(t, c, depth + 1, ai, near, out);
    }
}

// ---- one case ----------------------------------------------------------------------------------------------------
#[derive(Clone, Copy, Debug)]
enum HOp {
    Compute,
    ComputeOther,
    Dirty(usize),
    Enable,
    Disable,
    Layout,
    Unrounded,
}

fn build(r: &mut Rng, cnt: &mut Vec<&'static str>) -> (TaffyTree<()>, TNode) {
    let m = match r.below(5) {
        0 => Mode { int8: 0, neg8: 3, pct8: 4, nondy: false },
        1 => Mode { int8: 6, neg8: 2, pct8: 0, nondy: false },
        2 => Mode { int8: 4, neg8: 4, pct8: 2, nondy: false },
        3 => Mode { int8: 7, neg8: 0, pct8: 0, nondy: false },
        _ => Mode { int8: 3, neg8: 3, pct8: 3, nondy: true },
    };
    let mut t: TaffyTree<()> = TaffyTree::new();
    let mut budget = r.below(12);
    let root = gen_tree(r, &m, &mut t, 0, &mut budget, cnt);
    (t, root)
}

fn run_history(
    out: &mut Out,
    t: &mut TaffyTree<()>,
    root: &TNode,
    twin: &mut TaffyTree<()>,
    twin_root: &TNode,
    av: Size<AvailableSpace>,
    av2: Size<AvailableSpace>,
    ops: &[HOp],
) -> bool {
    // `twin` is the same tree built a second time; it receives the same passes and mark_dirty calls but has rounding
    // disabled for its whole life, so `round_layout` never runs on it. Whatever the layout pass does (including cache reuse),
    // it does the same on both, so any difference between t.unrounded_layout and twin.layout is caused by the rounding pass.
    twin.disable_rounding();
    let mut ids = vec![];
    collect_ids(root, &mut ids);
    let mut twin_ids = vec![];
    collect_ids(twin_root, &mut twin_ids);
    out.count(&format!("nodes:{}", ids.len()));
    out.qa("new", "ok");
    let mut flag = true;
    // rounded result per distinct unrounded tree seen in this case: the rounded layout is a function of the unrounded one only
    let mut seen: Vec<(String, String)> = vec![];
    let mut last_rounded: Option<String> = None; // what final_layout must hold
    let mut last_unrounded: Option<String> = None;
    let mut computed = false;
    let mut last_other = false;
    for op in ops {
        match *op {
            HOp::Compute | HOp::ComputeOther => {
                let other = matches!(op, HOp::ComputeOther);
                let a = if other { av2 } else { av };
                let res = std::panic::catch_unwind(std::panic::AssertUnwindSafe(|| {
                    t.compute_layout(root.id, a).unwrap();
                    twin.compute_layout(twin_root.id, a).unwrap();
                }));
                if res.is_err() {
                    // a panic of the layout pass itself is not this property's subject (C03); the case ends here
                    out.count("skipped:layout-panic");
                    return false;
                }
                computed = true;
                let mut req = String::new();
                ser_unrounded(t, root, &mut req);
                let mut ans = String::new();
                ser_layout(t, root, &mut ans, false);
                let mut unr = String::new();
                ser_layout(t, root, &mut unr, true);
                let mut tw = String::new();
                ser_layout(twin, twin_root, &mut tw, false);
                out.qa(&format!("compute {req}"), &ans);
                out.count(if flag { "op:compute:rounding-on" } else { "op:compute:rounding-off" });
                if flag && req.split(' ').any(|w| w.len() == 8 && w != "00000000") {
                    out.nontrivial();
                }
                if flag {
                    edge_stats(t, root, 0, (true, true), (0.0, 0.0), out);
                }
                if unr != tw {
                    out.impl_violation(format!("sig:c13-rounding-feeds-back unrounded layout differs from the layout of a twin tree on which rounding never ran"));
                }
                if let Some(lu) = &last_unrounded {
                    if other == last_other && *lu != unr {
                        // the layout pass itself is not idempotent here (same on the twin): C01's subject, recorded only
                        out.count("note:layout-pass-not-idempotent");
                        let c = out.cur_case;
                        if out.notes.len() < 5 {
                            out.notes.push(format!("case {c}: a repeated compute_layout with unchanged styles and available space produced a different unrounded layout (same on the twin tree without rounding; C01's subject, not rounding)"));
                        }
                    }
                }
                last_unrounded = Some(unr.clone());
                last_other = other;
                if flag {
                    if let Some((_, r0)) = seen.iter().find(|(u, _)| *u == unr) {
                        out.count("oracle:same-unrounded-again");
                        if *r0 != ans {
                            out.impl_violation(format!("sig:c13-rounded-drift the same unrounded layout was rounded differently on a later pass"));
                        }
                    } else {
                        seen.push((unr.clone(), ans.clone()));
                    }
                    last_rounded = Some(ans.clone());
                } else if ans != unr {
                    out.impl_violation(format!("sig:c13-layout-not-unrounded layout() differs from unrounded_layout() with rounding disabled"));
                }
            }
            HOp::Dirty(k) => {
                // not a request: the model state has no dirtiness; it only forces the next pass to recompute
                t.mark_dirty(ids[k % ids.len()]).unwrap();
                twin.mark_dirty(twin_ids[k % ids.len()]).unwrap();
                out.count("op:mark_dirty");
            }
            HOp::Enable | HOp::Disable => {
                let mut before = String::new();
                ser_layout(t, root, &mut before, true);
                if matches!(op, HOp::Enable) {
                    t.enable_rounding();
                    flag = true;
                    out.qa("enable", "ok");
                } else {
                    t.disable_rounding();
                    flag = false;
                    out.qa("disable", "ok");
                }
                out.count("op:toggle");
                let mut after = String::new();
                ser_layout(t, root, &mut after, true);
                if before != after {
                    out.impl_violation(format!("sig:c13-toggle-touched-unrounded toggling rounding changed the unrounded layout"));
                }
            }
            HOp::Layout => {
                if computed {
                    let mut ans = String::new();
                    ser_layout(t, root, &mut ans, false);
                    out.qa("layout", &ans);
                    out.count("op:layout");
                    if flag {
                        if let Some(f) = &last_rounded {
                            if *f != ans {
                                out.impl_violation(format!("sig:c13-rounded-drift layout() after toggles differs from the last rounded result"));
                            }
                        } else {
                            out.count("note:layout-read-before-any-rounded-pass");
                        }
                    } else if let Some(f) = &last_unrounded {
                        if *f != ans {
                            out.impl_violation(format!("sig:c13-unrounded-drift layout() with rounding off differs from the last pass's unrounded result"));
                        }
                    }
                }
            }
            HOp::Unrounded => {
                if computed {
                    let mut ans = String::new();
                    ser_layout(t, root, &mut ans, true);
                    out.qa("unrounded", &ans);
                    out.count("op:unrounded");
                    if let Some(f) = &last_unrounded {
                        if *f != ans {
                            out.impl_violation(format!("sig:c13-unrounded-drift unrounded_layout() differs from the last pass's result"));
                        }
                    }
                }
            }
        }
    }
    true
}

fn gen_history(r: &mut Rng) -> Vec<HOp> {
    let mut ops = vec![];
    if r.chance(1, 10) {
        ops.push(HOp::Disable);
    }
    ops.push(HOp::Compute);
    let extra = if r.chance(1, 2) { 0 } else { 1 + r.below(8) };
    for _ in 0..extra {
        ops.push(match r.below(12) {
            0..=2 => HOp::Compute,
            3 => HOp::ComputeOther,
            4 | 5 => HOp::Dirty(r.below(64)),
            6 | 7 => HOp::Enable,
            8 | 9 => HOp::Disable,
            10 => HOp::Layout,
            _ => HOp::Unrounded,
        });
    }
    if extra > 0 {
        ops.push(HOp::Layout);
        ops.push(HOp::Unrounded);
    }
    ops
}

/// hand-built witnesses (run first)
type Mk = Box<dyn Fn(&mut TaffyTree<()>) -> TNode>;
/// what the Lean witness theorem says about the final `layout()`s (checked on the implementation after the history)
type Expect = Box<dyn Fn(&TaffyTree<()>, &TNode) -> bool>;
fn fixed_cases() -> Vec<(&'static str, Mk, Vec<HOp>, Expect)> {
    let abs = |l: f32, tp: f32, w: f32, h: f32| Style {
        position: Position::Absolute,
        inset: Rect { left: length(l), right: auto(), top: length(tp), bottom: auto() },
        size: Size { width: length(w), height: length(h) },
        ..Default::default()
    };
    let mut v: Vec<(&'static str, Mk, Vec<HOp>, Expect)> = vec![];
    // bound 1 is attained: a box at x = -0.5 of width 1 gets rounded width 2
    v.push((
        "fixed:bound-attained",
        Box::new(move |t| {
            let c = t.new_leaf(abs(-0.5, -0.5, 1.0, 1.0)).unwrap();
            let root = t.new_with_children(Style { size: Size { width: length(10.0), height: length(10.0) }, ..Default::default() }, &[c]).unwrap();
            TNode { id: root, children: vec![TNode { id: c, children: vec![] }] }
        }),
        vec![HOp::Compute, HOp::Compute, HOp::Layout],
        // C13.size_bound_attained: width 1 at x = -1/2 becomes 2
        Box::new(|t, r| {
            let c = t.layout(r.children[0].id).unwrap();
            c.size.width == 2.0 && c.location.x == -1.0
        }),
    ));
    // half-pixel seam: B1 = [-2, -0.5] under the root, B2 starts at -0.5 under a parent at -1: rounded B1 ends at -1, B2 starts at 0
    v.push((
        "fixed:half-pixel-seam",
        Box::new(move |t| {
            let b1 = t.new_leaf(abs(-2.0, 0.0, 1.5, 1.0)).unwrap();
            let b2 = t.new_leaf(abs(0.5, 0.0, 1.0, 1.0)).unwrap();
            let p = t.new_with_children(abs(-1.0, 0.0, 4.0, 1.0), &[b2]).unwrap();
            let root = t.new_with_children(Style { size: Size { width: length(10.0), height: length(10.0) }, ..Default::default() }, &[b1, p]).unwrap();
            TNode { id: root, children: vec![TNode { id: b1, children: vec![] }, TNode { id: p, children: vec![TNode { id: b2, children: vec![] }] }] }
        }),
        vec![HOp::Compute, HOp::Disable, HOp::Layout, HOp::Enable, HOp::Layout, HOp::Unrounded],
        // C13.half_pixel_exclusion_necessary: unrounded edges coincide at -1/2; rounded B1 ends at -1, B2 starts at 0
        Box::new(|t, r| {
            let (b1, p, b2) = (r.children[0].id, r.children[1].id, r.children[1].children[0].id);
            let (ub1, up, ub2) = (t.unrounded_layout(b1), t.unrounded_layout(p), t.unrounded_layout(b2));
            let (lb1, lp, lb2) = (t.layout(b1).unwrap(), t.layout(p).unwrap(), t.layout(b2).unwrap());
            ub1.location.x + ub1.size.width == -0.5
                && up.location.x + ub2.location.x == -0.5
                && lb1.location.x + lb1.size.width == -1.0
                && lp.location.x + lb2.location.x == 0.0
        }),
    ));
    // fractional ancestor: parent at 0.4, child at 0.4: absolute 0.8 but rounded locations add to 0
    v.push((
        "fixed:fractional-ancestor",
        Box::new(move |t| {
            let c = t.new_leaf(abs(0.375, 0.375, 1.0, 1.0)).unwrap();
            let p = t.new_with_children(abs(0.375, 0.375, 4.0, 4.0), &[c]).unwrap();
            let root = t.new_with_children(Style { size: Size { width: length(10.0), height: length(10.0) }, ..Default::default() }, &[p]).unwrap();
            TNode { id: root, children: vec![TNode { id: p, children: vec![TNode { id: c, children: vec![] }] }] }
        }),
        vec![HOp::Compute],
        // C13.integral_ancestors_necessary: absolute 3/4 (rounds to 1) is reported at 0
        Box::new(|t, r| {
            let (p, c) = (r.children[0].id, r.children[0].children[0].id);
            t.unrounded_layout(p).location.x + t.unrounded_layout(c).location.x == 0.75
                && t.layout(p).unwrap().location.x + t.layout(c).unwrap().location.x == 0.0
        }),
    ));
    // f32 only: parent at y = 40, child at y = 14.499999 (0x4167ffff) of height 30.5. Exactly, the near edge 54.499999 is not on a
    // half pixel and the far edge 84.999999 rounds to 85; in f32 `40 + 14.499999` is 54.5, so the box is reported as [54, 84].
    // The monitor treats a near edge within 2^-18 (relative) of a half pixel as on it.
    v.push((
        "fixed:f32-near-edge-rounds-onto-half-pixel",
        Box::new(move |t| {
            let c = t.new_leaf(abs(0.0, f32::from_bits(0x4167ffff), 10.0, 30.5)).unwrap();
            let p = t.new_with_children(abs(0.0, 40.0, 50.0, 60.0), &[c]).unwrap();
            let root = t.new_with_children(Style { size: Size { width: length(100.0), height: length(100.0) }, ..Default::default() }, &[p]).unwrap();
            TNode { id: root, children: vec![TNode { id: p, children: vec![TNode { id: c, children: vec![] }] }] }
        }),
        vec![HOp::Compute],
        Box::new(|t, r| {
            let (p, c) = (r.children[0].id, r.children[0].children[0].id);
            let (lp, lc) = (t.layout(p).unwrap(), t.layout(c).unwrap());
            lp.location.y == 40.0 && lc.location.y == 14.0 && lc.size.height == 30.0
        }),
    ));
    // rounding disabled before the first pass, enabled afterwards without a pass: layout() reports the never-written final layout
    v.push((
        "fixed:enable-without-pass",
        Box::new(move |t| {
            let c = t.new_leaf(abs(1.5, 2.5, 3.25, 1.0)).unwrap();
            let root = t.new_with_children(Style { size: Size { width: length(10.5), height: length(10.0) }, ..Default::default() }, &[c]).unwrap();
            TNode { id: root, children: vec![TNode { id: c, children: vec![] }] }
        }),
        vec![HOp::Disable, HOp::Compute, HOp::Enable, HOp::Layout, HOp::Compute, HOp::Layout],
        // C13.stale_until_next_pass, second half: after the next pass layout() is the rounding of the unrounded layout
        Box::new(|t, r| {
            let c = t.layout(r.children[0].id).unwrap();
            c.location.x == 2.0 && c.location.y == 3.0 && c.size.width == 3.0
        }),
    ));
    v
}

// ---------------------------------------------------------------------------------------------------------
// direct stream: `taffy::round_layout` on a user-defined RoundTree holding ARBITRARY unrounded layouts (values a layout
// algorithm would rarely produce: neighbours of half pixels by one ulp, magnitudes where f32 has no fractional bits)

struct RNode {
    unrounded: Layout,
    rounded: Layout,
    children: Vec<usize>,
}
struct RTree {
    nodes: Vec<RNode>,
}
impl taffy::TraversePartialTree for RTree {
    type ChildIter<'a> = std::iter::Map<std::slice::Iter<'a, usize>, fn(&usize) -> NodeId>;
    fn child_ids(&self, n: NodeId) -> Self::ChildIter<'_> {
        self.nodes[usize::from(n)].children.iter().map(|c| NodeId::from(*c))
    }
    fn child_count(&self, n: NodeId) -> usize {
        self.nodes[usize::from(n)].children.len()
    }
    fn get_child_id(&self, n: NodeId, i: usize) -> NodeId {
        NodeId::from(self.nodes[usize::from(n)].children[i])
    }
}
impl taffy::TraverseTree for RTree {}
impl taffy::RoundTree for RTree {
    fn get_unrounded_layout(&self, n: NodeId) -> &Layout {
        &self.nodes[usize::from(n)].unrounded
    }
    fn set_final_layout(&mut self, n: NodeId, l: &Layout) {
        self.nodes[usize::from(n)].rounded = *l;
    }
}

fn adversarial(r: &mut Rng) -> f32 {
    let below_half = f32::from_bits(0x3eff_ffff); // largest f32 < 0.5
    let above_half = f32::from_bits(0x3f00_0001);
    let v = match r.below(12) {
        0 => below_half,
        1 => above_half,
        2 => 0.5,
        3 => r.range(0, 40) as f32 + below_half,
        4 => r.range(0, 40) as f32 + 0.5,
        5 => 8_388_609.0,           // 2^23 + 1: no representable x + 0.5
        6 => 8_388_607.5,           // 2^23 - 0.5
        7 => 16_777_215.0,          // 2^24 - 1
        8 => r.range(0, 4000) as f32 * 0.125,
        9 => 0.0,
        10 => f32::from_bits(0x3f7f_ffff), // largest f32 < 1
        _ => r.range(0, 200) as f32 * 0.5,
    };
    if r.chance(1, 4) {
        -v
    } else {
        v
    }
}

fn gen_direct(r: &mut Rng, nodes: &mut Vec<RNode>, depth: usize, budget: &mut usize) -> usize {
    let mut l = Layout::new();
    l.order = r.below(4) as u32;
    l.location = Point { x: adversarial(r), y: adversarial(r) };
    l.size = Size { width: adversarial(r).abs(), height: adversarial(r).abs() };
    l.content_size = Size { width: adversarial(r).abs(), height: adversarial(r).abs() };
    l.scrollbar_size = Size { width: if r.chance(1, 4) { adversarial(r).abs() } else { 0.0 }, height: 0.0 };
    let small = |r: &mut Rng| if r.chance(1, 2) { 0.0 } else { adversarial(r).abs().min(64.0) };
    l.border = Rect { left: small(r), right: small(r), top: small(r), bottom: small(r) };
    l.padding = Rect { left: small(r), right: small(r), top: small(r), bottom: small(r) };
    l.margin = Rect { left: adversarial(r), right: 0.0, top: adversarial(r), bottom: 0.0 };
    let me = nodes.len();
    nodes.push(RNode { unrounded: l, rounded: Layout::new(), children: vec![] });
    *budget = budget.saturating_sub(1);
    if depth < 3 {
        let k = r.below(3).min(*budget);
        for _ in 0..k {
            if *budget == 0 {
                break;
            }
            let c = gen_direct(r, nodes, depth + 1, budget);
            nodes[me].children.push(c);
        }
    }
    me
}

fn ser_direct(t: &RTree, n: usize, s: &mut String, rounded: bool, with_counts: bool) {
    if !s.is_empty() {
        s.push(' ');
    }
    s.push_str(&lay_tokens(if rounded { &t.nodes[n].rounded } else { &t.nodes[n].unrounded }));
    if with_counts {
        s.push_str(&format!(" {}", t.nodes[n].children.len()));
    }
    for c in t.nodes[n].children.clone() {
        ser_direct(t, c, s, rounded, with_counts);
    }
}

fn run_direct(out: &mut Out, r: &mut Rng) {
    let mut nodes = vec![];
    let mut budget = 1 + r.below(6);
    gen_direct(r, &mut nodes, 0, &mut budget);
    let mut t = RTree { nodes };
    taffy::round_layout(&mut t, NodeId::from(0usize));
    let mut req = String::new();
    ser_direct(&t, 0, &mut req, false, true);
    let mut ans = String::new();
    ser_direct(&t, 0, &mut ans, true, false);
    out.qa(&format!("roundtree {req}"), &ans);
    // implementation-side oracle on the root (cumulative offset 0, no ancestors): each rounded edge is the unrounded edge
    // rounded half away from zero — evaluated in f64, where every f32 and its rounding are exact
    {
        let u = t.nodes[0].unrounded;
        let f = t.nodes[0].rounded;
        let rnd = |v: f32| (v as f64).round();
        let checks = [
            ("location.x", f.location.x as f64, rnd(u.location.x)),
            ("location.y", f.location.y as f64, rnd(u.location.y)),
            ("size.width", f.size.width as f64, rnd(u.location.x + u.size.width) - rnd(u.location.x)),
            ("size.height", f.size.height as f64, rnd(u.location.y + u.size.height) - rnd(u.location.y)),
        ];
        for (name, got, want) in checks {
            // f32 subtraction of two integers below 2^24 is exact; beyond that the difference itself is rounded: skip
            if want.abs() < 16_777_216.0 && got != want && (u.location.x.abs() < 8_388_608.0 && u.location.y.abs() < 8_388_608.0 || name.starts_with("location")) {
                out.impl_violation(format!("sig:c13-edge-not-rounded root {name}: got {got}, the unrounded edge rounds to {want} (unrounded location {:?} size {:?})", u.location, u.size));
            }
        }
    }
    out.count("op:direct-round_layout");
    out.nontrivial();
}

pub fn run(cfg: &Cfg, out: &mut Out) -> String {
    let n = cfg.n(4000, 300_000);
    let mut idx = 0u64;
    let full = Size { width: AvailableSpace::Definite(100.0), height: AvailableSpace::Definite(100.0) };
    for (label, mk, ops, expect) in fixed_cases() {
        if cfg.wants(idx) {
            out.begin_case(idx, label);
            let mut t: TaffyTree<()> = TaffyTree::new();
            let root = mk(&mut t);
            let mut twin: TaffyTree<()> = TaffyTree::new();
            let twin_root = mk(&mut twin);
            run_history(out, &mut t, &root, &mut twin, &twin_root, full, Size::MAX_CONTENT, &ops);
            if !expect(&t, &root) {
                out.impl_violation(format!("sig:c13-witness-not-reproduced {label}: the implementation does not show what the Lean witness states"));
            }
        }
        idx += 1;
    }
    for _ in 0..n {
        if cfg.wants(idx) {
            let mut r = Rng::for_case(cfg.seed, idx);
            out.begin_case(idx, "random");
            let mut r2 = r.clone();
            let mut cnt = vec![];
            let (mut twin, twin_root) = build(&mut r2, &mut cnt);
            cnt.clear();
            let (mut t, root) = build(&mut r, &mut cnt);
            for c in cnt {
                out.count(c);
            }
            let av = gen_av(&mut r);
            let av2 = gen_av(&mut r);
            let ops = gen_history(&mut r);
            if std::env::var("TV_C13_DEBUG").is_ok() {
                // development aid: the generated styles and history of the replayed case
                fn dump(t: &TaffyTree<()>, n: &TNode, d: usize) {
                    eprintln!("{}{:?}", "  ".repeat(d), t.style(n.id).unwrap());
                    for c in &n.children {
                        dump(t, c, d + 1);
                    }
                }
                dump(&t, &root, 0);
                eprintln!("available space {av:?} / other {av2:?}\nhistory {ops:?}");
            }
            run_history(out, &mut t, &root, &mut twin, &twin_root, av, av2, &ops);
        }
        idx += 1;
    }
    // direct stream on round_layout itself
    for _ in 0..cfg.n(3000, 300_000) {
        if cfg.wants(idx) {
            let mut r = Rng::for_case(cfg.seed, idx);
            out.begin_case(idx, "direct");
            run_direct(out, &mut r);
        }
        idx += 1;
    }
    String::new()
}
