//! C02 — drive the public `taffy::Cache` with random op sequences.
use crate::common::*;
use taffy::prelude::TaffyMaxContent;
use taffy::{AvailableSpace, Cache, ClearState, CollapsibleMarginSet, LayoutOutput, Point, RunMode, Size};

const EPS: f32 = f32::EPSILON;

fn pool() -> Vec<f32> {
    vec![0.0, 1.0, 1.0 + EPS / 2.0, 1.0 + 2.0 * EPS, 1.0 - EPS / 2.0, 7.5, f32::NAN, -0.0, f32::INFINITY, 100.0, 1.0 + EPS]
}

fn small_pool() -> Vec<f32> {
    vec![0.0, 1.0, 1.0 + EPS / 2.0, 7.5, f32::NAN]
}

fn gen_opt(r: &mut Rng, p: &[f32]) -> Option<f32> {
    if r.chance(2, 5) {
        None
    } else {
        Some(*r.pick(p))
    }
}
fn gen_av(r: &mut Rng, p: &[f32]) -> AvailableSpace {
    match r.below(4) {
        0 => AvailableSpace::MinContent,
        1 => AvailableSpace::MaxContent,
        _ => AvailableSpace::Definite(*r.pick(p)),
    }
}
pub fn show_av(a: AvailableSpace) -> String {
    match a {
        AvailableSpace::MinContent => "min".into(),
        AvailableSpace::MaxContent => "max".into(),
        AvailableSpace::Definite(v) => format!("d:{}", hx(v)),
    }
}
pub fn show_mode(m: RunMode) -> &'static str {
    match m {
        RunMode::PerformLayout => "L",
        RunMode::ComputeSize => "S",
        RunMode::PerformHiddenLayout => "H",
    }
}
pub fn show_output(o: &LayoutOutput) -> String {
    let (tp, tn) = o.top_margin.verif_parts();
    let (bp, bn) = o.bottom_margin.verif_parts();
    format!(
        "{} {} {} {} {} {} {} {} {} {} {}",
        hx(o.size.width),
        hx(o.size.height),
        hx(o.content_size.width),
        hx(o.content_size.height),
        hxo(o.first_baselines.x),
        hxo(o.first_baselines.y),
        hx(tp),
        hx(tn),
        hx(bp),
        hx(bn),
        if o.margins_can_collapse_through { 1 } else { 0 }
    )
}
fn gen_output(r: &mut Rng, p: &[f32]) -> LayoutOutput {
    LayoutOutput {
        size: Size { width: *r.pick(p), height: *r.pick(p) },
        content_size: Size { width: *r.pick(p), height: *r.pick(p) },
        first_baselines: Point { x: gen_opt(r, p), y: gen_opt(r, p) },
        top_margin: CollapsibleMarginSet::verif_from_parts(*r.pick(p), -*r.pick(p)),
        bottom_margin: CollapsibleMarginSet::verif_from_parts(*r.pick(p), -*r.pick(p)),
        margins_can_collapse_through: r.chance(1, 2),
    }
}
fn gen_mode(r: &mut Rng) -> RunMode {
    match r.below(7) {
        0..=2 => RunMode::ComputeSize,
        3..=5 => RunMode::PerformLayout,
        _ => RunMode::PerformHiddenLayout,
    }
}

#[derive(Clone)]
enum Op {
    Get(Size<Option<f32>>, Size<AvailableSpace>, RunMode),
    Store(Size<Option<f32>>, Size<AvailableSpace>, RunMode, LayoutOutput),
    Clear,
    IsEmpty,
}

fn exec(out: &mut Out, ops: &[Op]) {
    let mut cache = Cache::new();
    let mut hits = 0;
    for op in ops {
        match op {
            Op::Get(kd, av, m) => {
                let req = format!("get {} {} {} {} {}", hxo(kd.width), hxo(kd.height), show_av(av.width), show_av(av.height), show_mode(*m));
                let a = match cache.get(*kd, *av, *m) {
                    Some(o) => {
                        hits += 1;
                        out.count("get:hit");
                        format!("some {}", show_output(&o))
                    }
                    None => {
                        out.count("get:miss");
                        "none".into()
                    }
                };
                out.qa(&req, &a);
            }
            Op::Store(kd, av, m, o) => {
                let req = format!(
                    "store {} {} {} {} {} {}",
                    hxo(kd.width),
                    hxo(kd.height),
                    show_av(av.width),
                    show_av(av.height),
                    show_mode(*m),
                    show_output(o)
                );
                cache.store(*kd, *av, *m, *o);
                out.count(&format!("store:{}", show_mode(*m)));
                out.qa(&req, "ok");
            }
            Op::Clear => {
                let a = match cache.clear() {
                    ClearState::Cleared => "cleared",
                    ClearState::AlreadyEmpty => "already",
                };
                out.count(&format!("clear:{a}"));
                out.qa("clear", a);
            }
            Op::IsEmpty => {
                out.qa("isempty", if cache.is_empty() { "1" } else { "0" });
            }
        }
    }
    if hits > 0 {
        out.nontrivial();
    }
}

fn gen_ops(r: &mut Rng, p: &[f32], len: usize) -> Vec<Op> {
    let mut ops = vec![];
    // keys are drawn from a small set of "remembered" keys most of the time, so that gets collide with stores
    let mut keys: Vec<(Size<Option<f32>>, Size<AvailableSpace>)> = vec![];
    for _ in 0..len {
        let fresh = keys.is_empty() || r.chance(1, 3);
        let (kd, av) = if fresh {
            let k = (Size { width: gen_opt(r, p), height: gen_opt(r, p) }, Size { width: gen_av(r, p), height: gen_av(r, p) });
            keys.push(k);
            k
        } else {
            let mut k = *r.pick(&keys);
            // perturb one component sometimes
            if r.chance(1, 3) {
                match r.below(4) {
                    0 => k.0.width = gen_opt(r, p),
                    1 => k.0.height = gen_opt(r, p),
                    2 => k.1.width = gen_av(r, p),
                    _ => k.1.height = gen_av(r, p),
                }
            }
            k
        };
        match r.below(20) {
            0..=8 => ops.push(Op::Get(kd, av, gen_mode(r))),
            9..=16 => {
                let o = gen_output(r, p);
                // sometimes make the stored size equal to a pooled known dimension so the "== cached size" arm fires
                ops.push(Op::Store(kd, av, gen_mode(r), o));
                if r.chance(1, 3) {
                    let k2 = Size { width: if r.chance(1, 2) { Some(o.size.width) } else { kd.width }, height: if r.chance(1, 2) { Some(o.size.height) } else { kd.height } };
                    ops.push(Op::Get(k2, av, gen_mode(r)));
                }
            }
            17 => ops.push(Op::Clear),
            _ => ops.push(Op::IsEmpty),
        }
    }
    ops
}

pub fn run(cfg: &Cfg, out: &mut Out) -> String {
    let p = pool();
    let n = cfg.n(3000, 200_000);
    let mut idx = 0u64;
    // fixed regression cases first
    let fixed: Vec<Vec<Op>> = vec![
        // a NaN key never hits, not even itself
        vec![
            Op::Store(Size { width: Some(f32::NAN), height: None }, Size::MAX_CONTENT, RunMode::ComputeSize, LayoutOutput::from_outer_size(Size { width: 1.0, height: 2.0 })),
            Op::Get(Size { width: Some(f32::NAN), height: None }, Size::MAX_CONTENT, RunMode::ComputeSize),
            Op::Get(Size { width: Some(1.0), height: None }, Size::MAX_CONTENT, RunMode::ComputeSize),
            Op::Clear,
            Op::Clear,
            Op::IsEmpty,
        ],
        // infinite definite available space is not roughly equal to itself
        vec![
            Op::Store(Size::NONE, Size { width: AvailableSpace::Definite(f32::INFINITY), height: AvailableSpace::MaxContent }, RunMode::PerformLayout, LayoutOutput::from_outer_size(Size { width: 1.0, height: 2.0 })),
            Op::Get(Size::NONE, Size { width: AvailableSpace::Definite(f32::INFINITY), height: AvailableSpace::MaxContent }, RunMode::PerformLayout),
        ],
    ];
    for ops in &fixed {
        if cfg.wants(idx) {
            out.begin_case(idx, "fixed");
            exec(out, ops);
        }
        idx += 1;
    }
    // slot independence, systematically: for every ordered pair of the nine slot classes (which known dimensions are set ×
    // which unknown axes are min-content) store A, store B, then look both up — a later store may only displace an
    // earlier one of the SAME class
    {
        let kds: [(bool, bool); 4] = [(true, true), (true, false), (false, true), (false, false)];
        let avs: [(AvailableSpace, AvailableSpace); 9] = [
            (AvailableSpace::MaxContent, AvailableSpace::MaxContent),
            (AvailableSpace::MaxContent, AvailableSpace::MinContent),
            (AvailableSpace::MinContent, AvailableSpace::MaxContent),
            (AvailableSpace::MinContent, AvailableSpace::MinContent),
            (AvailableSpace::Definite(7.5), AvailableSpace::MinContent),
            (AvailableSpace::MinContent, AvailableSpace::Definite(7.5)),
            (AvailableSpace::Definite(7.5), AvailableSpace::Definite(100.0)),
            (AvailableSpace::Definite(7.5), AvailableSpace::MaxContent),
            (AvailableSpace::MaxContent, AvailableSpace::Definite(100.0)),
        ];
        let mut keys = vec![];
        for (i, (kw, kh)) in kds.iter().enumerate() {
            for (j, (aw, ah)) in avs.iter().enumerate() {
                // distinct known values per key so that two keys are never compatible with each other's stored size
                let w = if *kw { Some(10.0 + (i * 9 + j) as f32) } else { None };
                let h = if *kh { Some(200.0 + (i * 9 + j) as f32) } else { None };
                keys.push((Size { width: w, height: h }, Size { width: *aw, height: *ah }));
            }
        }
        for (a, ka) in keys.iter().enumerate() {
            if cfg.wants(idx) {
                out.begin_case(idx, "slot-pairs");
                let mut ops = vec![];
                for (b, kb) in keys.iter().enumerate() {
                    let oa = LayoutOutput::from_outer_size(Size { width: 1000.0 + a as f32, height: 2000.0 + a as f32 });
                    let ob = LayoutOutput::from_outer_size(Size { width: 3000.0 + b as f32, height: 4000.0 + b as f32 });
                    ops.push(Op::Clear);
                    ops.push(Op::Store(ka.0, ka.1, RunMode::ComputeSize, oa));
                    ops.push(Op::Store(kb.0, kb.1, RunMode::ComputeSize, ob));
                    ops.push(Op::Get(ka.0, ka.1, RunMode::ComputeSize));
                    ops.push(Op::Get(kb.0, kb.1, RunMode::ComputeSize));
                }
                exec(out, &ops);
            }
            idx += 1;
        }
    }
    for _ in 0..n {
        if cfg.wants(idx) {
            let mut r = Rng::for_case(cfg.seed, idx);
            let len = 2 + r.below(14);
            let small = r.chance(1, 3);
            let ops = gen_ops(&mut r, if small { &p[..5] } else { &p }, len);
            out.begin_case(idx, "random");
            exec(out, &ops);
        }
        idx += 1;
    }
    // thorough: exhaustive short sequences over a tiny domain
    let mut exhaustive = 0u64;
    if cfg.thorough() && cfg.only_case.is_none() {
        let sp = small_pool();
        let kds: Vec<Option<f32>> = vec![None, Some(1.0), Some(1.0 + EPS / 2.0)];
        let avs: Vec<AvailableSpace> = vec![AvailableSpace::MinContent, AvailableSpace::MaxContent, AvailableSpace::Definite(1.0)];
        let mut keys = vec![];
        for kw in &kds {
            for kh in &[None, Some(1.0f32)] {
                for aw in &avs {
                    keys.push((Size { width: *kw, height: *kh }, Size { width: *aw, height: AvailableSpace::MaxContent }));
                }
            }
        }
        let modes = [RunMode::PerformLayout, RunMode::ComputeSize, RunMode::PerformHiddenLayout];
        let o1 = LayoutOutput::from_outer_size(Size { width: 1.0, height: 1.0 });
        let o2 = LayoutOutput::from_outer_size(Size { width: sp[2], height: 7.5 });
        let mut alphabet: Vec<Op> = vec![Op::Clear];
        for (kd, av) in &keys {
            for m in &modes {
                alphabet.push(Op::Get(*kd, *av, *m));
                alphabet.push(Op::Store(*kd, *av, *m, o1));
            }
        }
        for m in &modes {
            alphabet.push(Op::Store(keys[0].0, keys[0].1, *m, o2));
        }
        let a = alphabet.len();
        // all sequences of length 3 (a^3), each followed by every get once is too many; enumerate length-3 prefixes + one probing get
        for i in 0..a {
            for j in 0..a {
                for k in 0..a {
                    let ops = vec![alphabet[i].clone(), alphabet[j].clone(), alphabet[k].clone(), Op::IsEmpty, Op::Clear];
                    out.begin_case(idx, "exhaustive3");
                    exec(out, &ops);
                    idx += 1;
                    exhaustive += 1;
                }
            }
        }
    }
    format!("\"exhaustive_sequences\": {exhaustive}")
}
