//! C03 — totality of layout computation, observed from outside the process that runs it.
//!
//! `tvharness C03` is the supervisor: it re-executes itself as `tvharness C03worker --from A --to B` under
//! `ulimit -v` (address-space cap) and watches the worker's progress lines with a per-case wall-clock timeout, so a
//! panic that aborts, a stack overflow, an endless loop or an allocation blow-up in the real code is *observed* (exit
//! status, last started case, elapsed time, peak RSS) instead of killing the check. This is the failing-input search and
//! the observation channel for what a model cannot exhibit; it is never reported as proof.
use crate::common::*;
use crate::stylefmt::*;
use crate::treegen::*;
use std::io::{BufRead, BufReader, Write};
use std::process::{Command, Stdio};
use std::sync::mpsc;
use std::time::{Duration, Instant};
use taffy::prelude::*;

/// the property's bounded domain: every enum variant, signed margins/insets, any grid line incl. 0 and negatives,
/// spans incl. 0, repeat() tracks incl. auto-fill/auto-fit
fn gen_case(seed: u64, idx: u64) -> (TreeDesc, Size<AvailableSpace>, bool) {
    let mut r = Rng::for_case(seed, idx);
    let mut cfg = GenCfg::all();
    cfg.max_nodes = 2 + r.below(14);
    cfg.max_depth = 1 + r.below(4);
    cfg.max_children = 1 + r.below(6);
    let mut t = gen_tree(&mut r, &cfg);
    // widen the grid part of the domain beyond what treegen draws by default
    let mut rr = Rng::for_case(seed ^ 0xC03, idx);
    t.map_styles(&mut |s, _| {
        let line = |r: &mut Rng| match r.below(5) {
            0 => GridPlacement::Auto,
            1 => GridPlacement::Span(r.range(0, 4) as u16),
            _ => GridPlacement::from_line_index(r.range(-6, 6) as i16),
        };
        if rr.chance(1, 2) {
            s.grid_row = Line { start: line(&mut rr), end: line(&mut rr) };
        }
        if rr.chance(1, 2) {
            s.grid_column = Line { start: line(&mut rr), end: line(&mut rr) };
        }
        if s.display == Display::Grid && rr.chance(1, 4) {
            let tr = |r: &mut Rng| -> NonRepeatedTrackSizingFunction {
                match r.below(6) {
                    0 => length(r.range(1, 12) as f32 * 5.0),
                    1 => percent(0.25),
                    2 => fr(1.0),
                    3 => auto(),
                    4 => fit_content(LengthPercentage::length(20.0)),
                    _ => minmax(length(5.0), max_content()),
                }
            };
            let kind = if rr.chance(1, 2) { GridTrackRepetition::AutoFill } else { GridTrackRepetition::AutoFit };
            let rep = TrackSizingFunction::Repeat(kind, vec![tr(&mut rr)]);
            if rr.chance(1, 2) {
                s.grid_template_columns.push(rep);
            } else {
                s.grid_template_rows.push(rep);
            }
        }
    });
    let avail = gen_available(&mut r);
    let rounding = r.chance(1, 2);
    (t, avail, rounding)
}

fn finite_layout(l: &Layout) -> bool {
    [
        l.location.x,
        l.location.y,
        l.size.width,
        l.size.height,
        l.content_size.width,
        l.content_size.height,
        l.scrollbar_size.width,
        l.scrollbar_size.height,
        l.border.left,
        l.border.right,
        l.border.top,
        l.border.bottom,
        l.padding.left,
        l.padding.right,
        l.padding.top,
        l.padding.bottom,
        l.margin.left,
        l.margin.right,
        l.margin.top,
        l.margin.bottom,
    ]
    .iter()
    .all(|x| x.is_finite())
}

/// worker: one progress line per case, flushed before and after the call into taffy
pub fn worker(seed: u64, from: u64, to: u64) {
    let stdout = std::io::stdout();
    for idx in from..to {
        {
            let mut o = stdout.lock();
            writeln!(o, "start {idx}").unwrap();
            o.flush().unwrap();
        }
        let (t, avail, rounding) = gen_case(seed, idx);
        let nodes = t.count();
        let status = match layout_fresh(&t, avail, rounding) {
            Err(msg) => format!("panic {}", msg.replace('\n', " ").chars().take(160).collect::<String>()),
            Ok((tree, root)) => {
                let ls = all_layouts(&tree, root, false);
                let us = all_layouts(&tree, root, true);
                if ls.iter().chain(us.iter()).all(finite_layout) {
                    "ok".to_string()
                } else {
                    "nonfinite".to_string()
                }
            }
        };
        let mut o = stdout.lock();
        writeln!(o, "done {idx} {nodes} {status}").unwrap();
        o.flush().unwrap();
    }
}

fn peak_rss_kb(pid: u32) -> u64 {
    std::fs::read_to_string(format!("/proc/{pid}/status"))
        .ok()
        .and_then(|s| s.lines().find(|l| l.starts_with("VmHWM:")).map(|l| l.split_whitespace().nth(1).unwrap_or("0").parse().unwrap_or(0)))
        .unwrap_or(0)
}

struct BatchResult {
    done: Vec<(u64, u64, String)>,
    /// the case that was running when the worker died / was killed, with the reason
    crashed: Option<(u64, String)>,
    peak_rss_kb: u64,
}

fn run_batch(exe: &str, seed: u64, from: u64, to: u64, timeout: Duration) -> BatchResult {
    let mut child = Command::new("sh")
        .arg("-c")
        .arg(format!("ulimit -v 4000000; exec {exe} C03worker --seed {seed} --from {from} --to {to}"))
        .stdout(Stdio::piped())
        .stderr(Stdio::null())
        .spawn()
        .expect("spawn worker");
    let pid = child.id();
    let out = child.stdout.take().unwrap();
    let (tx, rx) = mpsc::channel::<String>();
    std::thread::spawn(move || {
        for line in BufReader::new(out).lines().map_while(Result::ok) {
            if tx.send(line).is_err() {
                break;
            }
        }
    });
    let mut res = BatchResult { done: vec![], crashed: None, peak_rss_kb: 0 };
    let mut current: Option<u64> = None;
    let mut started_at = Instant::now();
    loop {
        match rx.recv_timeout(Duration::from_millis(200)) {
            Ok(line) => {
                let w: Vec<&str> = line.splitn(4, ' ').collect();
                if w[0] == "start" {
                    current = w[1].parse().ok();
                    started_at = Instant::now();
                } else if w[0] == "done" {
                    res.done.push((w[1].parse().unwrap(), w[2].parse().unwrap_or(0), w.get(3).unwrap_or(&"").to_string()));
                    current = None;
                }
            }
            Err(mpsc::RecvTimeoutError::Timeout) => {
                res.peak_rss_kb = res.peak_rss_kb.max(peak_rss_kb(pid));
                if current.is_some() && started_at.elapsed() > timeout {
                    let _ = child.kill();
                    let _ = child.wait();
                    res.crashed = Some((current.unwrap(), format!("timeout after {:?} (hang or blow-up)", timeout)));
                    return res;
                }
            }
            Err(mpsc::RecvTimeoutError::Disconnected) => break,
        }
    }
    let status = child.wait().expect("wait");
    if let Some(c) = current {
        res.crashed = Some((c, format!("worker died: {status}")));
    } else if !status.success() && res.done.len() < (to - from) as usize {
        res.crashed = Some((from + res.done.len() as u64, format!("worker died: {status}")));
    }
    res
}

/// accessor / mutator calls with out-of-range child indices must return Err, not panic
fn index_errors(out: &mut Out, seed: u64, idx: u64) {
    let mut r = Rng::for_case(seed ^ 0x1D, idx);
    let mut t: TaffyTree<()> = TaffyTree::new();
    let n = r.below(4);
    let kids: Vec<NodeId> = (0..n).map(|_| t.new_leaf(Style::DEFAULT).unwrap()).collect();
    let p = t.new_with_children(Style::DEFAULT, &kids).unwrap();
    let extra = t.new_leaf(Style::DEFAULT).unwrap();
    let i = n + r.below(3);
    let calls: Vec<(&str, Box<dyn FnOnce(&mut TaffyTree<()>) -> bool>)> = vec![
        ("child_at_index", Box::new(move |t| t.child_at_index(p, i).is_err())),
        ("remove_child_at_index", Box::new(move |t| t.remove_child_at_index(p, i).is_err())),
        ("replace_child_at_index", Box::new(move |t| t.replace_child_at_index(p, i, extra).is_err())),
        ("insert_child_at_index", Box::new(move |t| t.insert_child_at_index(p, i + 1, extra).is_err())),
    ];
    for (name, f) in calls {
        let r = catch(|| f(&mut t));
        let ans = match r {
            Ok(true) => "err".to_string(),
            Ok(false) => {
                out.impl_violation(format!("sig:c03-index-no-error {name} with index {i} of {n} children returned Ok"));
                "ok".to_string()
            }
            Err(m) => {
                out.impl_violation(format!("sig:c03-index-panics {name} with index {i} of {n} children panicked: {m}"));
                "panic".to_string()
            }
        };
        out.qa(&format!("index {name} {n} {i}"), &ans);
        out.count(&format!("index:{name}"));
    }
}

pub fn run(cfg: &Cfg, out: &mut Out) -> String {
    let exe = std::env::current_exe().unwrap().to_string_lossy().to_string();
    let n = cfg.n(4000, 400_000);
    let timeout = Duration::from_secs(10);
    let mut peak = 0u64;
    let mut total_nodes = 0u64;
    let mut idx = 0u64;
    // known finding, replayed first: remove_children_range with an out-of-range range panics (documented)
    if cfg.wants(idx) {
        out.begin_case(idx, "fixed:remove_children_range");
        let r = catch(|| {
            let mut t: TaffyTree<()> = TaffyTree::new();
            let a = t.new_leaf(Style::DEFAULT).unwrap();
            let p = t.new_with_children(Style::DEFAULT, &[a]).unwrap();
            t.remove_children_range(p, 0..5).is_err()
        });
        let ans = match r {
            Ok(true) => "err",
            Ok(false) => "ok",
            Err(_) => {
                out.impl_violation("sig:c03-remove-children-range-panics remove_children_range(parent, 0..5) on a one-child node panics".into());
                "panic"
            }
        };
        out.qa("index remove_children_range 1 5", ans);
        out.nontrivial();
    }
    idx += 1;
    for k in 0..200u64 {
        if cfg.wants(idx) {
            out.begin_case(idx, "index-errors");
            index_errors(out, cfg.seed, k);
            out.nontrivial();
        }
        idx += 1;
    }
    // layouts, in supervised batches across 12 worker processes
    let base = idx;
    let (from, to) = match cfg.only_case {
        Some(c) if c >= base => (c - base, c - base + 1),
        Some(_) => (0, 0),
        None => (0, n),
    };
    let workers = 12u64;
    let chunk = ((to - from) / workers).max(1);
    let mut handles = vec![];
    let mut a = from;
    while a < to {
        let b = (a + chunk).min(to);
        let exe = exe.clone();
        let seed = cfg.seed;
        handles.push(std::thread::spawn(move || {
            // a crash ends a batch; continue after the crashed case
            let mut results = vec![];
            let mut s = a;
            while s < b {
                let r = run_batch(&exe, seed, s, b, timeout);
                let next = match &r.crashed {
                    Some((c, _)) => c + 1,
                    None => b,
                };
                results.push(r);
                s = next;
            }
            results
        }));
        a = b;
    }
    let mut all: Vec<BatchResult> = vec![];
    for h in handles {
        all.extend(h.join().unwrap());
    }
    let mut done: Vec<(u64, u64, String)> = vec![];
    let mut crashed: Vec<(u64, String)> = vec![];
    for r in all {
        peak = peak.max(r.peak_rss_kb);
        done.extend(r.done);
        if let Some(c) = r.crashed {
            crashed.push(c);
        }
    }
    done.sort();
    for (k, nodes, status) in done {
        out.begin_case(base + k, "layout");
        total_nodes += nodes;
        let (t, avail, rounding) = gen_case(cfg.seed, k);
        let req = format!("layout {} {} {} {}", av(avail.width), av(avail.height), rounding as u8, nodes);
        if status == "ok" {
            out.qa(&req, "ok");
            out.count("layout:ok");
        } else if status == "nonfinite" {
            out.qa(&req, "nonfinite");
            out.impl_violation(format!("sig:c03-nonfinite a Layout field is not finite; tree: {}", t.line().chars().take(1500).collect::<String>()));
        } else {
            out.qa(&req, "panic");
            out.impl_violation(format!("sig:c03-panic {status}; avail {} {} tree: {}", av(avail.width), av(avail.height), t.line().chars().take(1500).collect::<String>()));
        }
        if nodes >= 3 {
            out.nontrivial();
        }
        if t.has_display(Display::Grid) {
            out.count("has:grid");
        }
        if t.has_display(Display::Flex) {
            out.count("has:flex");
        }
        if t.has_display(Display::Block) {
            out.count("has:block");
        }
    }
    for (k, why) in crashed {
        out.begin_case(base + k, "layout-crash");
        let (t, avail, _) = gen_case(cfg.seed, k);
        out.qa("layout crashed", "crash");
        out.impl_violation(format!("sig:c03-crash {why}; avail {} {} tree: {}", av(avail.width), av(avail.height), t.line().chars().take(1500).collect::<String>()));
    }
    format!("\"peak_worker_rss_kb\": {peak}, \"total_nodes_laid_out\": {total_nodes}, \"profile\": \"{}\"", if cfg!(debug_assertions) { "debug (overflow checks on)" } else { "release" })
}
