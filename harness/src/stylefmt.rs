//! Canonical one-line serialisation of `taffy::Style` (non-grid part) — parsed by lean/TaffyVerif/Drv/StyleParse.lean.
#![allow(dead_code)]
use crate::common::*;
use taffy::prelude::*;
use taffy::style::{CompactLength, Overflow};
use taffy::{BoxSizing, TextAlign};

pub fn cl(c: CompactLength) -> String {
    match c.tag() {
        CompactLength::LENGTH_TAG => format!("l:{}", hx(c.value())),
        CompactLength::PERCENT_TAG => format!("p:{}", hx(c.value())),
        CompactLength::AUTO_TAG => "a".to_string(),
        t => panic!("stylefmt: unsupported length tag {t}"),
    }
}
pub fn lp(x: LengthPercentage) -> String {
    cl(x.into_raw())
}
pub fn lpa(x: LengthPercentageAuto) -> String {
    cl(x.into_raw())
}
pub fn dim(x: Dimension) -> String {
    cl(x.into_raw())
}
fn ov(o: Overflow) -> &'static str {
    match o {
        Overflow::Visible => "v",
        Overflow::Clip => "c",
        Overflow::Hidden => "h",
        Overflow::Scroll => "s",
    }
}
fn ai(a: Option<AlignItems>) -> &'static str {
    match a {
        None => "-",
        Some(AlignItems::Start) => "s",
        Some(AlignItems::End) => "e",
        Some(AlignItems::FlexStart) => "fs",
        Some(AlignItems::FlexEnd) => "fe",
        Some(AlignItems::Center) => "c",
        Some(AlignItems::Baseline) => "b",
        Some(AlignItems::Stretch) => "st",
    }
}
fn ac(a: Option<AlignContent>) -> &'static str {
    match a {
        None => "-",
        Some(AlignContent::Start) => "s",
        Some(AlignContent::End) => "e",
        Some(AlignContent::FlexStart) => "fs",
        Some(AlignContent::FlexEnd) => "fe",
        Some(AlignContent::Center) => "c",
        Some(AlignContent::Stretch) => "st",
        Some(AlignContent::SpaceBetween) => "sb",
        Some(AlignContent::SpaceEvenly) => "se",
        Some(AlignContent::SpaceAround) => "sa",
    }
}

/// 46 tokens, fixed order
pub fn style_line(s: &Style) -> String {
    let mut t: Vec<String> = vec![];
    t.push(
        match s.display {
            Display::Block => "B",
            Display::Flex => "F",
            Display::Grid => "G",
            Display::None => "N",
        }
        .into(),
    );
    t.push(if s.item_is_table { "1" } else { "0" }.into());
    t.push(if s.item_is_replaced { "1" } else { "0" }.into());
    t.push(if s.box_sizing == BoxSizing::BorderBox { "bb" } else { "cb" }.into());
    t.push(ov(s.overflow.x).into());
    t.push(ov(s.overflow.y).into());
    t.push(hx(s.scrollbar_width));
    t.push(if s.position == Position::Relative { "rel" } else { "abs" }.into());
    for x in [s.inset.left, s.inset.right, s.inset.top, s.inset.bottom] {
        t.push(lpa(x));
    }
    for x in [s.size.width, s.size.height, s.min_size.width, s.min_size.height, s.max_size.width, s.max_size.height] {
        t.push(dim(x));
    }
    t.push(hxo(s.aspect_ratio));
    for x in [s.margin.left, s.margin.right, s.margin.top, s.margin.bottom] {
        t.push(lpa(x));
    }
    for x in [s.padding.left, s.padding.right, s.padding.top, s.padding.bottom] {
        t.push(lp(x));
    }
    for x in [s.border.left, s.border.right, s.border.top, s.border.bottom] {
        t.push(lp(x));
    }
    t.push(ai(s.align_items).into());
    t.push(ai(s.align_self).into());
    t.push(ai(s.justify_items).into());
    t.push(ai(s.justify_self).into());
    t.push(ac(s.align_content).into());
    t.push(ac(s.justify_content).into());
    t.push(lp(s.gap.width));
    t.push(lp(s.gap.height));
    t.push(
        match s.text_align {
            TextAlign::Auto => "a",
            TextAlign::LegacyLeft => "l",
            TextAlign::LegacyRight => "r",
            TextAlign::LegacyCenter => "c",
        }
        .into(),
    );
    t.push(
        match s.flex_direction {
            FlexDirection::Row => "r",
            FlexDirection::Column => "c",
            FlexDirection::RowReverse => "rr",
            FlexDirection::ColumnReverse => "cr",
        }
        .into(),
    );
    t.push(
        match s.flex_wrap {
            FlexWrap::NoWrap => "n",
            FlexWrap::Wrap => "w",
            FlexWrap::WrapReverse => "wr",
        }
        .into(),
    );
    t.push(dim(s.flex_basis));
    t.push(hx(s.flex_grow));
    t.push(hx(s.flex_shrink));
    t.join(" ")
}

pub fn av(a: AvailableSpace) -> String {
    match a {
        AvailableSpace::MinContent => "min".into(),
        AvailableSpace::MaxContent => "max".into(),
        AvailableSpace::Definite(v) => format!("d:{}", hx(v)),
    }
}

/// 21 tokens: order, location x y, size w h, content w h, scrollbar w h, border l r t b, padding l r t b, margin l r t b
pub fn layout_line(l: &Layout) -> String {
    let v = [
        l.location.x,
        l.location.y,
        l.size.width,
        l.size.height,
        l.content_size.width,
        l.content_size.height,
        l.scrollbar_size.width,
        l.scrollbar_size.height,
        l.border.left,
        l.border.right,
        l.border.top,
        l.border.bottom,
        l.padding.left,
        l.padding.right,
        l.padding.top,
        l.padding.bottom,
        l.margin.left,
        l.margin.right,
        l.margin.top,
        l.margin.bottom,
    ];
    let mut s = format!("{}", l.order);
    for x in v {
        s.push(' ');
        s.push_str(&hxz(x));
    }
    s
}

// ---------------------------------------------------------------------------------------------------------
// generators shared by the algorithm modules

/// small dyadic numbers (multiples of 1/4) so that exact-rational and f32 evaluation agree
pub fn gen_len(r: &mut Rng) -> f32 {
    match r.below(10) {
        0 => 0.0,
        1 => *r.pick(&[1.0, 2.0, 10.0, 50.0, 100.0]),
        2 => r.range(0, 400) as f32 * 0.25,
        3 => r.range(0, 40) as f32,
        4 => r.range(0, 12) as f32 * 10.0,
        _ => r.range(0, 240) as f32 * 0.5,
    }
}
pub fn gen_signed_len(r: &mut Rng) -> f32 {
    let v = gen_len(r);
    if r.chance(1, 4) {
        -v
    } else {
        v
    }
}
pub fn gen_pct(r: &mut Rng) -> f32 {
    *r.pick(&[0.0, 0.125, 0.25, 0.5, 0.75, 1.0, 1.5])
}
pub fn gen_lp(r: &mut Rng) -> LengthPercentage {
    match r.below(6) {
        0 => LengthPercentage::percent(gen_pct(r)),
        1 | 2 => LengthPercentage::length(0.0),
        _ => LengthPercentage::length(gen_len(r) * 0.25),
    }
}
pub fn gen_lpa_margin(r: &mut Rng) -> LengthPercentageAuto {
    match r.below(8) {
        0 => LengthPercentageAuto::auto(),
        1 => LengthPercentageAuto::percent(gen_pct(r) * if r.chance(1, 4) { -0.5 } else { 0.5 }),
        2 | 3 => LengthPercentageAuto::length(0.0),
        _ => LengthPercentageAuto::length(gen_signed_len(r) * 0.25),
    }
}
pub fn gen_inset(r: &mut Rng) -> LengthPercentageAuto {
    match r.below(6) {
        0 | 1 | 2 => LengthPercentageAuto::auto(),
        3 => LengthPercentageAuto::percent(gen_pct(r) * 0.5),
        _ => LengthPercentageAuto::length(gen_signed_len(r) * 0.5),
    }
}
pub fn gen_dim(r: &mut Rng) -> Dimension {
    match r.below(8) {
        0 | 1 | 2 => Dimension::auto(),
        3 => Dimension::percent(gen_pct(r)),
        _ => Dimension::length(gen_len(r)),
    }
}
pub fn gen_overflow(r: &mut Rng) -> Overflow {
    match r.below(8) {
        0 => Overflow::Hidden,
        1 => Overflow::Scroll,
        2 => Overflow::Clip,
        _ => Overflow::Visible,
    }
}
