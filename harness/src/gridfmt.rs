//! Serialisation of the grid-specific style fields (the shared 46-token `style_line` has none), parsed by
//! lean/TaffyVerif/Drv/GRID.lean (`pGridStyle`, `pGridChildStyle`).
//!
//! grid container style = `<46 style tokens> <flow> <columns template> <rows template> <auto columns> <auto rows>`
//! grid child style     = `<46 style tokens> <row.start> <row.end> <column.start> <column.end>`
//! Token formats are those of c09.rs (track functions, templates) and c08.rs (placements, flow).
#![allow(dead_code)]
use crate::common::*;
use crate::stylefmt::style_line;
use taffy::prelude::*;
use taffy::style::{CompactLength, MaxTrackSizingFunction as MaxT, MinTrackSizingFunction as MinT};
use taffy::{GridAutoFlow, GridTrackRepetition, NonRepeatedTrackSizingFunction as TrackFn, TrackSizingFunction as TrackDef};

pub fn track_cl(c: CompactLength) -> String {
    match c.tag() {
        CompactLength::LENGTH_TAG => format!("l:{}", hx(c.value())),
        CompactLength::PERCENT_TAG => format!("p:{}", hx(c.value())),
        CompactLength::AUTO_TAG => "a".into(),
        CompactLength::MIN_CONTENT_TAG => "mn".into(),
        CompactLength::MAX_CONTENT_TAG => "mx".into(),
        CompactLength::FIT_CONTENT_PX_TAG => format!("fp:{}", hx(c.value())),
        CompactLength::FIT_CONTENT_PERCENT_TAG => format!("fq:{}", hx(c.value())),
        CompactLength::FR_TAG => format!("fr:{}", hx(c.value())),
        t => panic!("gridfmt: unsupported tag {t}"),
    }
}
pub fn min_tok(m: MinT) -> String {
    track_cl(m.into_raw())
}
pub fn max_tok(m: MaxT) -> String {
    track_cl(m.into_raw())
}
pub fn fn_tok(f: &TrackFn) -> String {
    format!("{} {}", min_tok(f.min), max_tok(f.max))
}
pub fn template_tok(t: &[TrackDef]) -> String {
    let mut s = format!("{}", t.len());
    for d in t {
        match d {
            TrackDef::Single(f) => s.push_str(&format!(" s {}", fn_tok(f))),
            TrackDef::Repeat(r, fs) => {
                let k = match r {
                    GridTrackRepetition::AutoFill => "fill".to_string(),
                    GridTrackRepetition::AutoFit => "fit".to_string(),
                    GridTrackRepetition::Count(c) => format!("c:{c}"),
                };
                s.push_str(&format!(" r {} {}", k, fs.len()));
                for f in fs {
                    s.push(' ');
                    s.push_str(&fn_tok(f));
                }
            }
        }
    }
    s
}
pub fn fns_tok(fs: &[TrackFn]) -> String {
    let mut s = format!("{}", fs.len());
    for f in fs {
        s.push(' ');
        s.push_str(&fn_tok(f));
    }
    s
}
pub fn flow_tok(f: GridAutoFlow) -> &'static str {
    match f {
        GridAutoFlow::Row => "row",
        GridAutoFlow::Column => "col",
        GridAutoFlow::RowDense => "rowd",
        GridAutoFlow::ColumnDense => "cold",
    }
}
pub fn placement_tok(p: GridPlacement) -> String {
    match p {
        GridPlacement::Auto => "a".into(),
        GridPlacement::Line(l) => format!("l{}", l.as_i16()),
        GridPlacement::Span(n) => format!("s{n}"),
    }
}

/// what `GridContainerStyle` reads of a container
pub fn grid_container_line(s: &Style) -> String {
    format!(
        "{} {} {} {} {} {}",
        style_line(s),
        flow_tok(s.grid_auto_flow),
        template_tok(&s.grid_template_columns),
        template_tok(&s.grid_template_rows),
        fns_tok(&s.grid_auto_columns),
        fns_tok(&s.grid_auto_rows)
    )
}

/// what `GridItemStyle` reads of a child
pub fn grid_child_line(s: &Style) -> String {
    format!(
        "{} {} {} {} {}",
        style_line(s),
        placement_tok(s.grid_row.start),
        placement_tok(s.grid_row.end),
        placement_tok(s.grid_column.start),
        placement_tok(s.grid_column.end)
    )
}
