//! C18 — CompactLength and its typed wrappers, driven through the public API on raw bit patterns.
use crate::common::*;
use taffy::prelude::*;
use taffy::style::{CompactLength, Dimension, LengthPercentage, LengthPercentageAuto, MaxTrackSizingFunction, MinTrackSizingFunction};
use taffy::util::{MaybeResolve, ResolveOrZero};

/// results of arithmetic: every NaN is printed canonically (payload propagation is not modelled)
fn b(x: f32) -> String {
    hx(x)
}
fn bo(x: Option<f32>) -> String {
    match x {
        None => "-".into(),
        Some(v) => b(v),
    }
}

fn flags(c: CompactLength) -> String {
    let bs = [
        c.is_calc(),
        c.is_zero(),
        c.is_length_or_percentage(),
        c.is_auto(),
        c.is_min_content(),
        c.is_max_content(),
        c.is_fit_content(),
        c.is_max_or_fit_content(),
        c.is_max_content_alike(),
        c.is_min_or_max_content(),
        c.is_intrinsic(),
        c.is_fr(),
        c.uses_percentage(),
    ];
    bs.iter().map(|x| if *x { '1' } else { '0' }).collect()
}

fn describe(c: CompactLength) -> String {
    format!("{} {:08x} {}", c.tag(), c.value().to_bits(), flags(c))
}

fn calc_resolver(_ptr: *const (), basis: f32) -> f32 {
    basis * 0.25
}

const CTORS: [&str; 5] = ["length", "percent", "fr", "fit_content_px", "fit_content_percent"];

fn build(ctor: &str, bits: u32) -> CompactLength {
    let v = f32::from_bits(bits);
    match ctor {
        "length" => CompactLength::length(v),
        "percent" => CompactLength::percent(v),
        "fr" => CompactLength::fr(v),
        "fit_content_px" => CompactLength::fit_content_px(v),
        "fit_content_percent" => CompactLength::fit_content_percent(v),
        "auto" => CompactLength::auto(),
        "min_content" => CompactLength::min_content(),
        "max_content" => CompactLength::max_content(),
        _ => unreachable!(),
    }
}

/// stratified payloads: every exponent, NaN payload edges, low-mantissa patterns that would alias a tag under an off-by-one shift
fn interesting_bits(r: &mut Rng) -> u32 {
    match r.below(8) {
        0 => {
            let e = r.below(256) as u32;
            let s = r.below(2) as u32;
            (s << 31) | (e << 23) | (r.next() as u32 & 0x7fffff)
        }
        1 => *r.pick(&[0u32, 0x8000_0000, 0x7f80_0000, 0xff80_0000, 0x7fc0_0000, 0x7fc0_0001, 0x7fff_ffff, 0xffff_ffff, 0x7f80_0001, 1, 2, 3, 4, 7, 15, 23, 31, 0xff, 0x100]),
        2 => r.next() as u32 & 0xff,
        3 => (r.next() as u32) | 0x7f80_0000,
        4 => 1u32 << r.below(32),
        5 => !(1u32 << r.below(32)),
        6 => (r.range(-64, 64) as f32 * 0.25).to_bits(),
        _ => r.next() as u32,
    }
}

pub fn run(cfg: &Cfg, out: &mut Out) -> String {
    let n = cfg.n(20_000, 1 << 20);
    let mut idx = 0u64;
    // unit constructors and fixed cases
    if cfg.wants(idx) {
        out.begin_case(idx, "units");
        for u in ["auto", "min_content", "max_content"] {
            let c = build(u, 0);
            out.qa(&format!("unit {u}"), &describe(c));
        }
        // the typed wrappers forward to the same representation
        let same = [
            ("LP.length", LengthPercentage::length(1.5).into_raw()),
            ("LPA.length", LengthPercentageAuto::length(1.5).into_raw()),
            ("DIM.length", Dimension::length(1.5).into_raw()),
            ("MIN.length", MinTrackSizingFunction::length(1.5).into_raw()),
            ("MAX.length", MaxTrackSizingFunction::length(1.5).into_raw()),
        ];
        for (name, c) in same {
            out.qa(&format!("ctor length {:08x} via {name}", 1.5f32.to_bits()), &describe(c));
        }
        let same = [
            ("LPA.auto", LengthPercentageAuto::auto().into_raw()),
            ("DIM.auto", Dimension::auto().into_raw()),
            ("MIN.auto", MinTrackSizingFunction::auto().into_raw()),
            ("MAX.auto", MaxTrackSizingFunction::auto().into_raw()),
        ];
        for (name, c) in same {
            out.qa(&format!("unit auto via {name}"), &describe(c));
        }
        out.qa("unit min_content via MIN", &describe(MinTrackSizingFunction::min_content().into_raw()));
        out.qa("unit max_content via MAX", &describe(MaxTrackSizingFunction::max_content().into_raw()));
        out.qa(&format!("ctor fr {:08x} via MAX", 2.0f32.to_bits()), &describe(MaxTrackSizingFunction::fr(2.0).into_raw()));
        out.qa(&format!("ctor fit_content_px {:08x} via MAX", 2.0f32.to_bits()), &describe(MaxTrackSizingFunction::fit_content_px(2.0).into_raw()));
        out.qa(
            &format!("ctor fit_content_percent {:08x} via MAX", 0.5f32.to_bits()),
            &describe(MaxTrackSizingFunction::fit_content_percent(0.5).into_raw()),
        );
        out.qa(&format!("ctor fit_content_px {:08x} via fit_content(LP)", 2.0f32.to_bits()), &describe(MaxTrackSizingFunction::fit_content(LengthPercentage::length(2.0)).into_raw()));
        out.qa(
            &format!("ctor fit_content_percent {:08x} via fit_content(LP)", 0.5f32.to_bits()),
            &describe(MaxTrackSizingFunction::fit_content(LengthPercentage::percent(0.5)).into_raw()),
        );
        out.nontrivial();
    }
    idx += 1;
    for _ in 0..n {
        if cfg.wants(idx) {
            let mut r = Rng::for_case(cfg.seed, idx);
            out.begin_case(idx, "random");
            let bits = interesting_bits(&mut r);
            let ctor = *r.pick(&CTORS);
            let c = build(ctor, bits);
            out.count(ctor);
            out.qa(&format!("ctor {ctor} {bits:08x}"), &describe(c));
            out.nontrivial();
            // implementation-side oracle: the conclusion of the round-trip theorems, evaluated on the real code
            let expect_tag = match ctor {
                "length" => CompactLength::LENGTH_TAG,
                "percent" => CompactLength::PERCENT_TAG,
                "fr" => CompactLength::FR_TAG,
                "fit_content_px" => CompactLength::FIT_CONTENT_PX_TAG,
                _ => CompactLength::FIT_CONTENT_PERCENT_TAG,
            };
            if c.tag() != expect_tag || c.value().to_bits() != bits || c.is_calc() {
                out.impl_violation(format!("sig:c18-roundtrip {ctor}({bits:08x}) reads back tag {} value {:08x} is_calc {}", c.tag(), c.value().to_bits(), c.is_calc()));
            }
            // resolution through the typed wrappers
            let ctx_bits = interesting_bits(&mut r);
            let ctx = if r.chance(1, 4) { None } else { Some(f32::from_bits(ctx_bits)) };
            if ctor == "length" || ctor == "percent" {
                let lp = unsafe { LengthPercentage::from_raw(c) };
                let lpa = unsafe { LengthPercentageAuto::from_raw(c) };
                let dim = unsafe { Dimension::from_raw(c) };
                out.qa(&format!("resolve LP {ctor} {bits:08x} {}", bo(ctx)), &format!("{} {}", bo(lp.maybe_resolve(ctx, calc_resolver)), b(lp.resolve_or_zero(ctx, calc_resolver))));
                out.qa(&format!("resolve LPA {ctor} {bits:08x} {}", bo(ctx)), &format!("{} {}", bo(lpa.maybe_resolve(ctx, calc_resolver)), b(lpa.resolve_or_zero(ctx, calc_resolver))));
                out.qa(&format!("resolve DIM {ctor} {bits:08x} {}", bo(ctx)), &format!("{} {}", bo(dim.maybe_resolve(ctx, calc_resolver)), b(dim.resolve_or_zero(ctx, calc_resolver))));
                let cb = f32::from_bits(ctx_bits);
                out.qa(&format!("rto {ctor} {bits:08x} {ctx_bits:08x}"), &bo(lpa.resolve_to_option(cb, calc_resolver)));
                out.qa(&format!("into_option {ctor} {bits:08x}"), &bo(dim.into_option()));
                // implementation-side oracle for the resolution clause: "a length resolves to its number regardless of the basis, a
                // percentage to basis times fraction (or to nothing without a basis)" — bit for bit (NaN: any NaN), through each wrapper
                let same = |a: Option<f32>, w: Option<f32>| match (a, w) {
                    (None, None) => true,
                    (Some(x), Some(y)) => x.to_bits() == y.to_bits() || (x.is_nan() && y.is_nan()),
                    _ => false,
                };
                let v = f32::from_bits(bits);
                let want = if ctor == "length" { Some(v) } else { ctx.map(|bs| v * bs) };
                for (w, got) in [("LP", lp.maybe_resolve(ctx, calc_resolver)), ("LPA", lpa.maybe_resolve(ctx, calc_resolver)), ("DIM", dim.maybe_resolve(ctx, calc_resolver))] {
                    if !same(got, want) {
                        out.impl_violation(format!("sig:c18-resolution {w}::{ctor}({bits:08x}).maybe_resolve({}) = {} but the property prescribes {}", bo(ctx), bo(got), bo(want)));
                    }
                }
            }
            // "no two kinds are ever confused": the percentage-only resolver answers for a percentage and for nothing else
            {
                let mx = unsafe { MaxTrackSizingFunction::from_raw(c) };
                let basis = f32::from_bits(ctx_bits);
                let got = mx.resolved_percentage_size(basis, calc_resolver);
                let want = if ctor == "percent" { Some(f32::from_bits(bits) * basis) } else { None };
                let ok = match (got, want) {
                    (None, None) => true,
                    (Some(x), Some(y)) => x.to_bits() == y.to_bits() || (x.is_nan() && y.is_nan()),
                    _ => false,
                };
                if !ok {
                    out.impl_violation(format!("sig:c18-kind-confused {ctor}({bits:08x}).resolved_percentage_size({ctx_bits:08x}) = {} but only a percentage resolves there (prescribed {})", bo(got), bo(want)));
                }
            }
            let mx = unsafe { MaxTrackSizingFunction::from_raw(c) };
            out.qa(
                &format!("track {ctor} {bits:08x} {} {ctx_bits:08x}", bo(ctx)),
                &format!(
                    "{} {} {} {}",
                    bo(mx.definite_value(ctx, calc_resolver)),
                    if mx.has_definite_value(ctx) { 1 } else { 0 },
                    bo(mx.definite_limit(ctx, calc_resolver)),
                    bo(mx.resolved_percentage_size(f32::from_bits(ctx_bits), calc_resolver))
                ),
            );
            if ctor == "length" || ctor == "percent" {
                let mn = unsafe { MinTrackSizingFunction::from_raw(c) };
                out.qa(&format!("mintrack {ctor} {bits:08x} {}", bo(ctx)), &bo(mn.definite_value(ctx, calc_resolver)));
            }
            // calc pointers: non-null, 8-aligned
            if r.chance(1, 4) {
                let p: u64 = match r.below(4) {
                    0 => 8,
                    1 => (r.next() & !7) | 8,
                    2 => 0xffff_ffff_ffff_fff8,
                    _ => ((r.next() as u32 as u64) << 32) | ((r.below(32) as u64) << 3) | if r.chance(1, 2) { 0x100 } else { 0 },
                };
                if p != 0 {
                    let c = CompactLength::calc(p as usize as *const ());
                    out.count("calc");
                    out.qa(&format!("calc {p:016x}"), &format!("{} {:016x} {}", c.tag(), c.calc_value() as usize as u64, flags(c)));
                    // "calc handles are told apart from every non-calc value": of the kind predicates only is_calc (and
                    // uses_percentage, which includes calc by definition) may hold, and the handle reads back
                    if flags(c) != "1000000000001" || c.calc_value() as usize as u64 != p {
                        out.impl_violation(format!(
                            "sig:c18-calc-confused calc handle {p:016x} reads back {:016x} with predicate flags {} (is_calc, is_zero, is_length_or_percentage, is_auto, is_min_content, is_max_content, is_fit_content, is_max_or_fit_content, is_max_content_alike, is_min_or_max_content, is_intrinsic, is_fr, uses_percentage)",
                            c.calc_value() as usize as u64,
                            flags(c)
                        ));
                    }
                    // a calc handle is never resolved as if it were a length / percentage: with a basis it goes through the resolver,
                    // without one it resolves to nothing — whatever the handle's bits look like when read as a number
                    {
                        let lp = LengthPercentage::calc(p as usize as *const ());
                        let lpa = LengthPercentageAuto::calc(p as usize as *const ());
                        let dm = Dimension::calc(p as usize as *const ());
                        let want = ctx.map(|bs| calc_resolver(p as usize as *const (), bs));
                        for (w, got) in [("LP", lp.maybe_resolve(ctx, calc_resolver)), ("LPA", lpa.maybe_resolve(ctx, calc_resolver)), ("DIM", dm.maybe_resolve(ctx, calc_resolver))] {
                            let ok = match (got, want) {
                                (None, None) => true,
                                (Some(x), Some(y)) => x.to_bits() == y.to_bits() || (x.is_nan() && y.is_nan()),
                                _ => false,
                            };
                            if !ok {
                                out.impl_violation(format!("sig:c18-calc-confused {w}::calc({p:016x}).maybe_resolve({}) = {} instead of the resolver's answer {}", bo(ctx), bo(got), bo(want)));
                            }
                        }
                    }
                    let dim = Dimension::calc(p as usize as *const ());
                    out.qa(&format!("resolve DIM calc {p:016x} {}", bo(ctx)), &format!("{} {}", bo(dim.maybe_resolve(ctx, calc_resolver)), b(dim.resolve_or_zero(ctx, calc_resolver))));
                }
            }
        }
        idx += 1;
    }
    // thorough: all 2^32 payloads × all numeric constructors on the implementation side; the oracle is the
    // conclusion of C18.*_roundtrip (tag is the constructor's tag, value is bit-identical, never calc)
    let mut exhaustive = 0u64;
    let mut bad = 0u64;
    if cfg.thorough() && cfg.only_case.is_none() {
        let threads = 16u64;
        let handles: Vec<_> = (0..threads)
            .map(|t| {
                std::thread::spawn(move || {
                    let mut bad = 0u64;
                    let mut first: Option<(u32, &'static str)> = None;
                    let lo = (t << 32) / threads;
                    let hi = ((t + 1) << 32) / threads;
                    for x in lo..hi {
                        let bits = x as u32;
                        let v = f32::from_bits(bits);
                        let cs: [(CompactLength, usize, &'static str); 5] = [
                            (CompactLength::length(v), CompactLength::LENGTH_TAG, "length"),
                            (CompactLength::percent(v), CompactLength::PERCENT_TAG, "percent"),
                            (CompactLength::fr(v), CompactLength::FR_TAG, "fr"),
                            (CompactLength::fit_content_px(v), CompactLength::FIT_CONTENT_PX_TAG, "fit_content_px"),
                            (CompactLength::fit_content_percent(v), CompactLength::FIT_CONTENT_PERCENT_TAG, "fit_content_percent"),
                        ];
                        for (c, tag, name) in cs {
                            if c.tag() != tag || c.value().to_bits() != bits || c.is_calc() {
                                bad += 1;
                                if first.is_none() {
                                    first = Some((bits, name));
                                }
                            }
                        }
                    }
                    (bad, first)
                })
            })
            .collect();
        for h in handles {
            let (bd, first) = h.join().unwrap();
            bad += bd;
            if let Some((bits, name)) = first {
                out.impl_violation(format!("sig:c18-roundtrip {name}({bits:08x}) does not round-trip tag/value"));
            }
        }
        exhaustive = 5u64 << 32;
    }
    format!("\"exhaustive_payload_checks\": {exhaustive}, \"exhaustive_failures\": {bad}")
}
