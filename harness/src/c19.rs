//! C19 — a single leaf through the real `TaffyTree` (root + dispatch + leaf), `compute_leaf_layout` driven directly with
//! arbitrary `LayoutInput`s, and the dispatch of the measure closure on small trees.
use crate::common::*;
use crate::stylefmt::*;
use crate::treegen::*;
use taffy::prelude::*;
use taffy::style::Overflow;
use taffy::util::MaybeResolve;
use taffy::{BoxSizing, LayoutInput, LayoutOutput, Point, RequestedAxis, RunMode, SizingMode};

type Call = (Size<Option<f32>>, Size<AvailableSpace>);

fn avz(a: AvailableSpace) -> String {
    match a {
        AvailableSpace::MinContent => "min".into(),
        AvailableSpace::MaxContent => "max".into(),
        AvailableSpace::Definite(v) => format!("d:{}", hxz(v)),
    }
}
fn show_calls(calls: &[Call]) -> String {
    let mut s = format!("calls {}", calls.len());
    for (k, a) in calls {
        s.push_str(&format!(" {} {} {} {}", hxoz(k.width), hxoz(k.height), avz(a.width), avz(a.height)));
    }
    s
}
fn show_ctx(c: &Option<Ctx>) -> String {
    match c {
        None => "-".into(),
        Some(Ctx::Fixed(w, h)) => format!("f:{}:{}", hx(*w), hx(*h)),
        Some(Ctx::Wrap(w, h)) => format!("w:{}:{}", hx(*w), hx(*h)),
    }
}
fn show_output_z(o: &LayoutOutput) -> String {
    let (tp, tn) = o.top_margin.verif_parts();
    let (bp, bn) = o.bottom_margin.verif_parts();
    format!(
        "{} {} {} {} {} {} {} {} {} {} {}",
        hxz(o.size.width),
        hxz(o.size.height),
        hxz(o.content_size.width),
        hxz(o.content_size.height),
        hxoz(o.first_baselines.x),
        hxoz(o.first_baselines.y),
        hxz(tp),
        hxz(tn),
        hxz(bp),
        hxz(bn),
        if o.margins_can_collapse_through { 1 } else { 0 }
    )
}

// ---------------------------------------------------------------------------------------------------------
// generators: every field a leaf reads varies; small colliding pools of dyadic values

const LENS: [f32; 12] = [0.0, 0.0, 1.0, 2.5, 10.0, 20.0, 20.0, 37.5, 50.0, 80.0, 100.0, 240.0];

fn c_len(r: &mut Rng) -> f32 {
    if r.chance(3, 4) {
        *r.pick(&LENS)
    } else {
        gen_len(r)
    }
}
fn c_dim(r: &mut Rng, p_auto: u32) -> Dimension {
    if r.chance(p_auto, 10) {
        return Dimension::auto();
    }
    match r.below(5) {
        0 => Dimension::percent(gen_pct(r)),
        _ => Dimension::length(c_len(r)),
    }
}
fn c_lp(r: &mut Rng) -> LengthPercentage {
    match r.below(8) {
        0 => LengthPercentage::percent(gen_pct(r) * 0.25),
        1 | 2 | 3 => LengthPercentage::length(0.0),
        _ => LengthPercentage::length(r.range(0, 48) as f32 * 0.25),
    }
}
fn c_margin(r: &mut Rng) -> LengthPercentageAuto {
    match r.below(8) {
        0 => LengthPercentageAuto::auto(),
        1 => LengthPercentageAuto::percent(gen_pct(r) * if r.chance(1, 3) { -0.25 } else { 0.25 }),
        2 | 3 => LengthPercentageAuto::length(0.0),
        4 => LengthPercentageAuto::length(-(r.range(0, 40) as f32) * 0.5),
        _ => LengthPercentageAuto::length(r.range(0, 60) as f32 * 0.5),
    }
}
fn c_overflow(r: &mut Rng) -> Overflow {
    *r.pick(&[Overflow::Visible, Overflow::Visible, Overflow::Clip, Overflow::Hidden, Overflow::Scroll, Overflow::Scroll])
}

pub fn gen_leaf_style(r: &mut Rng) -> Style {
    // start from the shared generator so that the fields a leaf ignores also vary
    let mut s = gen_style(r, &GenCfg::all(), true, true);
    s.grid_row = Line { start: GridPlacement::Auto, end: GridPlacement::Auto };
    s.grid_column = Line { start: GridPlacement::Auto, end: GridPlacement::Auto };
    s.display = match r.below(10) {
        0 => Display::None,
        1..=4 => Display::Block,
        5..=7 => Display::Flex,
        _ => Display::Grid,
    };
    s.position = if r.chance(1, 8) { Position::Absolute } else { Position::Relative };
    s.box_sizing = if r.chance(1, 3) { BoxSizing::ContentBox } else { BoxSizing::BorderBox };
    s.overflow = Point { x: c_overflow(r), y: c_overflow(r) };
    s.scrollbar_width = *r.pick(&[0.0, 4.0, 15.0, 2.5, 15.0]);
    // a third of the styles is "sparse" (mostly auto) so that the content-sized paths are well visited
    let p_auto = *r.pick(&[3u32, 5, 8]);
    s.size = Size { width: c_dim(r, p_auto), height: c_dim(r, p_auto) };
    s.min_size = Size { width: c_dim(r, p_auto + 2), height: c_dim(r, p_auto + 2) };
    s.max_size = Size { width: c_dim(r, p_auto + 2), height: c_dim(r, p_auto + 2) };
    s.aspect_ratio = match r.below(10) {
        0..=5 => None,
        _ => Some(*r.pick(&[0.25, 0.5, 1.0, 2.0, 4.0])),
    };
    if r.chance(2, 3) {
        s.margin = Rect { left: c_margin(r), right: c_margin(r), top: c_margin(r), bottom: c_margin(r) };
    } else {
        s.margin = Rect { left: zero(), right: zero(), top: zero(), bottom: zero() };
    }
    if r.chance(1, 2) {
        s.padding = Rect { left: c_lp(r), right: c_lp(r), top: c_lp(r), bottom: c_lp(r) };
    } else {
        s.padding = Rect { left: zero(), right: zero(), top: zero(), bottom: zero() };
    }
    if r.chance(1, 2) {
        s.border = Rect { left: c_lp(r), right: c_lp(r), top: c_lp(r), bottom: c_lp(r) };
    } else {
        s.border = Rect { left: zero(), right: zero(), top: zero(), bottom: zero() };
    }
    s
}

fn c_ctx(r: &mut Rng) -> Option<Ctx> {
    match r.below(6) {
        0 => None,
        1 | 2 => Some(Ctx::Wrap(r.range(0, 30) as f32 * 4.0, r.range(0, 8) as f32 * 2.5)),
        3 => Some(Ctx::Fixed(0.0, if r.chance(1, 2) { 0.0 } else { 12.5 })),
        _ => Some(Ctx::Fixed(r.range(0, 60) as f32 * 0.5, r.range(0, 40) as f32 * 0.5)),
    }
}
fn c_av1(r: &mut Rng) -> AvailableSpace {
    match r.below(8) {
        0 => AvailableSpace::MinContent,
        1 => AvailableSpace::MaxContent,
        2 => AvailableSpace::Definite(0.0),
        3 => AvailableSpace::Definite(*r.pick(&LENS)),
        _ => AvailableSpace::Definite(r.range(0, 80) as f32 * 5.0),
    }
}
fn c_opt(r: &mut Rng) -> Option<f32> {
    match r.below(5) {
        0 | 1 => None,
        2 => Some(0.0),
        _ => Some(c_len(r)),
    }
}

// ---------------------------------------------------------------------------------------------------------

/// one single-node tree through the real TaffyTree, rounding disabled
fn run_leaf(out: &mut Out, style: &Style, ctx: Option<Ctx>, avail: Size<AvailableSpace>) {
    run_leaf_after(out, style, ctx, avail, None)
}

/// A single-node tree that has been laid out before with another style / content / available space (`prev`) and is then brought to
/// (style, ctx) with `set_style` / `set_node_context` (each called only when its argument differs from the previous one) and laid out again.
/// C19 quantifies over single-node trees, not over how they came about: the request line and the expected answer are those of a fresh
/// tree, and the measure calls reported are those of the last pass alone.
fn run_leaf_after(out: &mut Out, style: &Style, ctx: Option<Ctx>, avail: Size<AvailableSpace>, prev: Option<(Style, Option<Ctx>, Size<AvailableSpace>)>) {
    let mut req = format!("leaf {} {} {} {}", style_line(style), show_ctx(&ctx), av(avail.width), av(avail.height));
    let again = prev.is_some();
    let res = catch(|| {
        let mut t: TaffyTree<Ctx> = TaffyTree::new();
        t.disable_rounding();
        let n = match &prev {
            None => match ctx {
                Some(c) => t.new_leaf_with_context(style.clone(), c).unwrap(),
                None => t.new_leaf(style.clone()).unwrap(),
            },
            Some((pstyle, pctx, pavail)) => {
                let n = match pctx {
                    Some(c) => t.new_leaf_with_context(pstyle.clone(), *c).unwrap(),
                    None => t.new_leaf(pstyle.clone()).unwrap(),
                };
                t.compute_layout_with_measure(n, *pavail, |k, a, _id, c, _s| measure(k, a, c)).unwrap();
                if pstyle != style {
                    t.set_style(n, style.clone()).unwrap();
                }
                if show_ctx(pctx) != show_ctx(&ctx) {
                    t.set_node_context(n, ctx).unwrap();
                } else if pstyle == style {
                    t.mark_dirty(n).unwrap();
                }
                n
            }
        };
        let mut calls: Vec<Call> = vec![];
        t.compute_layout_with_measure(n, avail, |k, a, _id, c, _s| {
            calls.push((k, a));
            measure(k, a, c)
        })
        .unwrap();
        (*t.unrounded_layout(n), calls)
    });
    match res {
        Err(_) => {
            out.count("leaf:panic");
            out.qa(&req, "panic");
        }
        Ok((l, calls)) => {
            if again {
                // the number of measure calls of the last pass goes into the request: 0 = answered from the cache
                req = format!("leafagain {} {}", calls.len(), &req[5..]);
                out.count(&format!("leafagain:calls:{}", calls.len()));
            }
            // implementation-side oracles (theorem conclusions evaluated directly)
            let pbw = l.padding.left + l.padding.right + l.border.left + l.border.right;
            let pbh = l.padding.top + l.padding.bottom + l.border.top + l.border.bottom;
            if style.display != Display::None && !(l.size.width >= pbw && l.size.height >= pbh) {
                out.impl_violation(format!("sig:c19-size-floor size {}x{} below padding+border {}x{}", l.size.width, l.size.height, pbw, pbh));
            }
            if l.location.x != 0.0 || l.location.y != 0.0 {
                out.impl_violation("sig:c19-location root location is not (0,0)".into());
            }
            if calls.len() > 1 || (style.display == Display::None && !calls.is_empty()) {
                out.impl_violation(format!("sig:c19-measure-calls {} measure calls for display {:?}", calls.len(), style.display));
            }
            // the two remaining aspect-ratio corners, evaluated directly (narrow, hypothesis-free regions of the statement)
            if let Some(r) = style.aspect_ratio {
                let def = |d: Dimension, a: AvailableSpace| -> Option<f32> {
                    if d.is_auto() {
                        None
                    } else {
                        d.maybe_resolve(a.into_option(), |_, _| 0.0)
                    }
                };
                let (sw, sh) = (def(style.size.width, avail.width), def(style.size.height, avail.height));
                let (nw, nh) = (def(style.min_size.width, avail.width), def(style.min_size.height, avail.height));
                let (xw, xh) = (def(style.max_size.width, avail.width), def(style.max_size.height, avail.height));
                let cb = style.box_sizing == BoxSizing::ContentBox;
                if style.display != Display::None && r > 0.0 {
                    // "style size if definite … clamped by min/max": a declared size with no min and no max in its own axis
                    // must come out as declared (or padding+border if that is larger)
                    if let (Some(w), None, None, None) = (sw, nw, nh, xw) {
                        let want = (w + if cb { pbw } else { 0.0 }).max(pbw);
                        if l.size.width != want {
                            out.impl_violation(format!("sig:c19-root-max-transfer declared width {want} with no min/max-width comes out as {} (display {:?}, max-height {:?}, ratio {r})", l.size.width, style.display, xh));
                        }
                    }
                    if let (Some(h), None, None, None) = (sh, nw, nh, xh) {
                        let want = (h + if cb { pbh } else { 0.0 }).max(pbh);
                        if l.size.height != want {
                            out.impl_violation(format!("sig:c19-root-max-transfer declared height {want} with no min/max-height comes out as {} (display {:?}, max-width {:?}, ratio {r})", l.size.height, style.display, xw));
                        }
                    }
                    // "an aspect ratio transferring a known axis to the other": with auto sizes and no max-height the box is
                    // never flatter than its ratio
                    if sw.is_none() && sh.is_none() && xh.is_none() && l.size.height < l.size.width / r {
                        out.impl_violation(format!("sig:c19-ratio-unfloored-width auto-sized {}x{} is flatter than its ratio {r} although no max-height limits it", l.size.width, l.size.height));
                    }
                }
            }
            out.count(&format!("leaf:display:{:?}", style.display));
            out.count(&format!("leaf:calls:{}", calls.len()));
            out.count(match ctx {
                None => "leaf:ctx:none",
                Some(Ctx::Fixed(..)) => "leaf:ctx:fixed",
                Some(Ctx::Wrap(..)) => "leaf:ctx:wrap",
            });
            for (nm, d) in [("w", style.size.width), ("h", style.size.height)] {
                out.count(&format!("leaf:size.{nm}:{}", if d.is_auto() { "auto" } else { "set" }));
            }
            if style.aspect_ratio.is_some() {
                out.count("leaf:aspect-ratio");
            }
            if style.box_sizing == BoxSizing::ContentBox {
                out.count("leaf:content-box");
            }
            if style.overflow.x == Overflow::Scroll || style.overflow.y == Overflow::Scroll {
                out.count("leaf:scroll-gutter");
            }
            if style.display != Display::None {
                out.nontrivial();
            }
            out.qa(&req, &format!("{} {}", layout_line(&l), show_calls(&calls)));
        }
    }
}

fn show_input(i: &LayoutInput) -> String {
    format!(
        "{} {} {} {} {} {} {} {} {} {} {}",
        match i.run_mode {
            RunMode::PerformLayout => "L",
            RunMode::ComputeSize => "S",
            RunMode::PerformHiddenLayout => "H",
        },
        match i.sizing_mode {
            SizingMode::ContentSize => "C",
            SizingMode::InherentSize => "I",
        },
        match i.axis {
            RequestedAxis::Horizontal => "h",
            RequestedAxis::Vertical => "v",
            RequestedAxis::Both => "b",
        },
        hxo(i.known_dimensions.width),
        hxo(i.known_dimensions.height),
        hxo(i.parent_size.width),
        hxo(i.parent_size.height),
        av(i.available_space.width),
        av(i.available_space.height),
        if i.vertical_margins_are_collapsible.start { 1 } else { 0 },
        if i.vertical_margins_are_collapsible.end { 1 } else { 0 },
    )
}

/// `compute_leaf_layout` directly
fn run_leafraw(out: &mut Out, style: &Style, ctx: Option<Ctx>, input: LayoutInput) {
    let req = format!("leafraw {} {} {}", style_line(style), show_ctx(&ctx), show_input(&input));
    let mut calls: Vec<Call> = vec![];
    let res = catch(|| {
        let mut c = ctx;
        taffy::compute_leaf_layout(input, style, |_, _| 0.0, |k, a| {
            calls.push((k, a));
            measure(k, a, c.as_mut())
        })
    });
    out.count(&format!(
        "raw:{}{}",
        match input.run_mode {
            RunMode::PerformLayout => "L",
            RunMode::ComputeSize => "S",
            RunMode::PerformHiddenLayout => "H",
        },
        match input.sizing_mode {
            SizingMode::ContentSize => "C",
            SizingMode::InherentSize => "I",
        }
    ));
    match res {
        Err(_) => {
            out.count("raw:panic");
            if input.run_mode != RunMode::PerformHiddenLayout {
                out.impl_violation("sig:c19-leaf-panic compute_leaf_layout panicked outside hidden run mode".into());
            }
            if !calls.is_empty() {
                out.impl_violation("sig:c19-measure-calls measure function ran before the hidden-mode panic".into());
            }
            out.qa(&req, "panic");
        }
        Ok(o) => {
            if calls.is_empty() {
                out.count("raw:early-return");
            }
            if o.margins_can_collapse_through {
                out.count("raw:collapse-through");
            }
            if calls.len() > 1 {
                out.impl_violation(format!("sig:c19-measure-calls {} measure calls in one compute_leaf_layout", calls.len()));
            }
            out.nontrivial();
            out.qa(&req, &format!("{} {}", show_output_z(&o), show_calls(&calls)));
        }
    }
}

fn gen_input(r: &mut Rng) -> LayoutInput {
    LayoutInput {
        run_mode: match r.below(20) {
            0 => RunMode::PerformHiddenLayout,
            1..=9 => RunMode::PerformLayout,
            _ => RunMode::ComputeSize,
        },
        sizing_mode: if r.chance(1, 3) { SizingMode::ContentSize } else { SizingMode::InherentSize },
        axis: *r.pick(&[RequestedAxis::Horizontal, RequestedAxis::Vertical, RequestedAxis::Both]),
        known_dimensions: Size { width: c_opt(r), height: c_opt(r) },
        parent_size: Size { width: c_opt(r), height: c_opt(r) },
        available_space: Size { width: c_av1(r), height: c_av1(r) },
        vertical_margins_are_collapsible: Line { start: r.chance(1, 2), end: r.chance(1, 2) },
    }
}

/// dispatch: for every node of a small tree in which *every* node carries a context, was the measure closure invoked
/// with that node's id?
fn run_dispatch(out: &mut Out, d: &TreeDesc, avail: Size<AvailableSpace>) {
    let res = catch(|| {
        let mut t: TaffyTree<Ctx> = TaffyTree::new();
        t.disable_rounding();
        let root = d.build(&mut t);
        let mut seen: Vec<NodeId> = vec![];
        t.compute_layout_with_measure(root, avail, |k, a, id, c, _s| {
            seen.push(id);
            measure(k, a, c)
        })
        .unwrap();
        let mut ids = vec![];
        preorder_ids(&t, root, &mut ids);
        (ids, seen)
    });
    let (ids, seen) = match res {
        Ok(x) => x,
        Err(_) => {
            out.count("dispatch:tree-panicked");
            return;
        }
    };
    // preorder walk carrying "an ancestor is display:none"
    fn walk(d: &TreeDesc, hidden_anc: bool, acc: &mut Vec<(bool, Display, usize)>) {
        acc.push((hidden_anc, d.style.display, d.children.len()));
        for c in &d.children {
            walk(c, hidden_anc || d.style.display == Display::None, acc);
        }
    }
    let mut nodes = vec![];
    walk(d, false, &mut nodes);
    for (i, (hidden_anc, display, nkids)) in nodes.iter().enumerate() {
        let called = seen.contains(&ids[i]);
        if called && (*hidden_anc || *display == Display::None || *nkids > 0) {
            out.impl_violation(format!("sig:c19-measure-nonleaf measure function invoked for a node with {} children, display {:?}, hidden ancestor {}", nkids, display, hidden_anc));
        }
        let dch = match display {
            Display::Block => "B",
            Display::Flex => "F",
            Display::Grid => "G",
            Display::None => "N",
        };
        out.count(&format!("dispatch:{}{}{}:{}", if *hidden_anc { "hidden-" } else { "" }, dch, if *nkids > 0 { "+kids" } else { "" }, called as u8));
        out.qa(&format!("dispatch {} {} {}", *hidden_anc as u8, dch, nkids), if called { "1" } else { "0" });
    }
    out.nontrivial();
}

// ---------------------------------------------------------------------------------------------------------

fn base_style() -> Style {
    Style { display: Display::Flex, ..Style::DEFAULT }
}

/// witnesses and corners found while proving; they run first
fn fixed_leaf_cases() -> Vec<(&'static str, Style, Option<Ctx>, Size<AvailableSpace>)> {
    let mc = Size::MAX_CONTENT;
    let mut v = vec![];
    // plain content-sized leaf
    v.push(("content", base_style(), Some(Ctx::Fixed(30.0, 10.0)), mc));
    // definite size, padding, border, scroll gutter
    let mut s = base_style();
    s.size = Size { width: length(100.0), height: percent(0.5) };
    s.padding = Rect { left: length(5.0), right: length(5.0), top: length(2.5), bottom: length(2.5) };
    s.border = Rect { left: length(1.0), right: length(1.0), top: length(1.0), bottom: length(1.0) };
    s.overflow = Point { x: Overflow::Visible, y: Overflow::Scroll };
    s.scrollbar_width = 15.0;
    v.push(("definite+gutter", s.clone(), Some(Ctx::Wrap(120.0, 10.0)), Size { width: AvailableSpace::Definite(400.0), height: AvailableSpace::Definite(200.0) }));
    // min > max: min wins
    let mut s = base_style();
    s.size = Size { width: length(50.0), height: auto() };
    s.min_size = Size { width: length(80.0), height: length(20.0) };
    s.max_size = Size { width: length(20.0), height: length(10.0) };
    v.push(("min>max", s.clone(), Some(Ctx::Fixed(30.0, 10.0)), mc));
    s.display = Display::Block;
    v.push(("min>max block", s, Some(Ctx::Fixed(30.0, 10.0)), mc));
    // repaired (0f21303): both sizes set + aspect ratio: was 100x100, must be 100x10
    let mut s = base_style();
    s.size = Size { width: length(100.0), height: length(10.0) };
    s.aspect_ratio = Some(1.0);
    v.push(("repaired:ar-both-sizes", s, None, mc));
    // repaired: width + aspect ratio + max-height below width/ratio: was 100x100, must be 100x20 (flex root);
    // on a block root the root transfers max-height to max-width: 20x20 (remaining corner c19-root-max-transfer)
    let mut s = base_style();
    s.size = Size { width: length(100.0), height: auto() };
    s.max_size = Size { width: auto(), height: length(20.0) };
    s.aspect_ratio = Some(1.0);
    v.push(("repaired:ar-max-height flex", s.clone(), None, mc));
    s.display = Display::Block;
    v.push(("corner:c19-root-max-transfer", s, None, mc));
    // repaired: content-box + aspect ratio + horizontal padding: was 150x150, must be 150x100
    let mut s = base_style();
    s.box_sizing = BoxSizing::ContentBox;
    s.size = Size { width: length(100.0), height: auto() };
    s.padding = Rect { left: length(50.0), right: zero(), top: zero(), bottom: zero() };
    s.aspect_ratio = Some(1.0);
    v.push(("repaired:ar-content-box", s, None, mc));
    // corner D: auto sizes, max-width below padding, aspect ratio: the ratio divides the unfloored width
    let mut s = base_style();
    s.max_size = Size { width: length(10.0), height: auto() };
    s.padding = Rect { left: length(30.0), right: zero(), top: zero(), bottom: zero() };
    s.aspect_ratio = Some(1.0);
    v.push(("corner:c19-ratio-unfloored-width", s, None, mc));
    // repaired: auto sizes + ratio + max-height: the ratio-derived height is clamped (30x20, was 30x30)
    let mut s = base_style();
    s.max_size = Size { width: auto(), height: length(20.0) };
    s.aspect_ratio = Some(1.0);
    v.push(("repaired:ar-auto-max-height", s, Some(Ctx::Fixed(30.0, 10.0)), mc));
    // negative vertical padding (invalid CSS): the undetermined height is floored at 0
    let mut s = base_style();
    s.padding = Rect { left: zero(), right: zero(), top: length(-10.0), bottom: zero() };
    v.push(("corner:negative-padding", s, None, mc));
    // display:none root: zero size but resolved padding/border/margin fields
    let mut s = base_style();
    s.display = Display::None;
    s.padding = Rect { left: length(5.0), right: length(5.0), top: length(2.5), bottom: length(2.5) };
    s.size = Size { width: length(100.0), height: length(10.0) };
    v.push(("display-none", s, Some(Ctx::Fixed(30.0, 10.0)), mc));
    v
}

pub fn run(cfg: &Cfg, out: &mut Out) -> String {
    let mut idx = 0u64;
    for (label, style, ctx, avail) in fixed_leaf_cases() {
        if cfg.wants(idx) {
            out.begin_case(idx, &format!("fixed:{label}"));
            run_leaf(out, &style, ctx, avail);
            // witnesses of the repaired l.149 defect: pinned sizes, and ComputeSize must agree with PerformLayout
            let expected = match label {
                "repaired:ar-both-sizes" => Some((100.0, 10.0)),
                "repaired:ar-max-height flex" => Some((100.0, 20.0)),
                "repaired:ar-content-box" => Some((150.0, 100.0)),
                "repaired:ar-auto-max-height" => Some((30.0, 20.0)),
                _ => None,
            };
            if let Some((ew, eh)) = expected {
                let size_in = |mode: RunMode| {
                    let input = LayoutInput {
                        run_mode: mode,
                        sizing_mode: SizingMode::InherentSize,
                        axis: RequestedAxis::Both,
                        known_dimensions: Size::NONE,
                        parent_size: avail.into_options(),
                        available_space: avail,
                        vertical_margins_are_collapsible: Line::FALSE,
                    };
                    let mut c = ctx;
                    taffy::compute_leaf_layout(input, &style, |_, _| 0.0, |k, a| measure(k, a, c.as_mut())).size
                };
                let (s_cs, s_pl) = (size_in(RunMode::ComputeSize), size_in(RunMode::PerformLayout));
                if s_pl.width != ew || s_pl.height != eh {
                    out.impl_violation(format!("sig:c19-ratio-floor-regressed {label}: expected {ew}x{eh}, got {}x{}", s_pl.width, s_pl.height));
                }
                if s_cs != s_pl {
                    out.impl_violation(format!("sig:c19-runmode-disagree {label}: ComputeSize {}x{} vs PerformLayout {}x{}", s_cs.width, s_cs.height, s_pl.width, s_pl.height));
                }
            }
            // the same style through compute_leaf_layout in both run modes
            for mode in [RunMode::ComputeSize, RunMode::PerformLayout, RunMode::PerformHiddenLayout] {
                let input = LayoutInput {
                    run_mode: mode,
                    sizing_mode: SizingMode::InherentSize,
                    axis: RequestedAxis::Both,
                    known_dimensions: Size::NONE,
                    parent_size: avail.into_options(),
                    available_space: avail,
                    vertical_margins_are_collapsible: Line::FALSE,
                };
                run_leafraw(out, &style, ctx, input);
            }
        }
        idx += 1;
    }
    let n_leaf = cfg.n(6000, 400_000);
    for _ in 0..n_leaf {
        if cfg.wants(idx) {
            let mut r = Rng::for_case(cfg.seed, idx);
            let style = gen_leaf_style(&mut r);
            let ctx = c_ctx(&mut r);
            let avail = Size { width: c_av1(&mut r), height: c_av1(&mut r) };
            out.begin_case(idx, "leaf");
            run_leaf(out, &style, ctx, avail);
        }
        idx += 1;
    }
    let n_raw = cfg.n(6000, 400_000);
    for _ in 0..n_raw {
        if cfg.wants(idx) {
            let mut r = Rng::for_case(cfg.seed, idx);
            let style = gen_leaf_style(&mut r);
            let ctx = c_ctx(&mut r);
            let input = gen_input(&mut r);
            out.begin_case(idx, "leafraw");
            run_leafraw(out, &style, ctx, input);
        }
        idx += 1;
    }
    // the same single-node trees reached through a history: an earlier layout, then set_style / set_node_context, then the layout compared
    // (seeded C19-5 = C01-5: set_node_context(n, None) did not dirty the node, so a leaf whose content was removed kept its old size)
    let n_again = cfg.n(3000, 200_000);
    let after_tree_start = idx + cfg.n(1500, 50_000);
    let again = |out: &mut Out, idx: u64| {
        let mut r = Rng::for_case(cfg.seed, idx);
        let style = gen_leaf_style(&mut r);
        let ctx = c_ctx(&mut r);
        let avail = Size { width: c_av1(&mut r), height: c_av1(&mut r) };
        let prev = match r.below(3) {
            // only the content changes (same style, same available space): the node is dirtied by set_node_context alone
            0 => {
                let mut pc = c_ctx(&mut r);
                if show_ctx(&pc) == show_ctx(&ctx) {
                    pc = if ctx.is_some() { None } else { Some(Ctx::Fixed(24.0, 8.0)) };
                }
                (style.clone(), pc, avail)
            }
            // only the style changes
            1 => (gen_leaf_style(&mut r), ctx, avail),
            // (a history in which only the available space changes dirties nothing: whether the cache tells the two requests apart is the
            // subject of C01/C02 — its key leaves out parent_size, known finding c01 — and is not asked here)
            _ => (gen_leaf_style(&mut r), c_ctx(&mut r), Size { width: c_av1(&mut r), height: c_av1(&mut r) }),
        };
        out.begin_case(idx, "leafagain");
        out.count(match (prev.0 == style, show_ctx(&prev.1) == show_ctx(&ctx)) {
            (true, false) => "leafagain:context-only",
            (false, true) => "leafagain:style-only",
            (true, true) => "leafagain:available-space-only",
            (false, false) => "leafagain:all",
        });
        run_leaf_after(out, &style, ctx, avail, Some(prev));
    };
    let n_tree = cfg.n(1500, 50_000);
    for _ in 0..n_tree {
        if cfg.wants(idx) {
            let mut r = Rng::for_case(cfg.seed, idx);
            let mut gc = GenCfg::all();
            gc.max_nodes = 6;
            gc.max_depth = 2;
            gc.allow_grid_lines = false;
            let mut d = gen_tree(&mut r, &gc);
            // every node carries a context, also containers and hidden nodes; hidden nodes are frequent
            let mut k = 0;
            let hide = r.below(8);
            d.map_styles(&mut |s, c| {
                if c.is_none() {
                    *c = Some(Ctx::Fixed(10.0, 5.0));
                }
                if k > 0 && k == hide {
                    s.display = Display::None;
                }
                k += 1;
            });
            if r.chance(1, 12) {
                d.style.display = Display::None;
            }
            let avail = gen_available(&mut r);
            out.begin_case(idx, "dispatch");
            run_dispatch(out, &d, avail);
        }
        idx += 1;
    }
    debug_assert_eq!(idx, after_tree_start);
    for _ in 0..n_again {
        if cfg.wants(idx) {
            again(out, idx);
        }
        idx += 1;
    }
    String::new()
}
