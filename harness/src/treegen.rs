//! Random style trees shared by the whole-layout checks, the measure function they all use, and the
//! preorder one-line serialisation read by the Lean driver (Drv/TreeParse.lean).
#![allow(dead_code)]
use crate::common::*;
use crate::stylefmt::*;
use taffy::prelude::*;
use taffy::style::Overflow;
use taffy::{BoxSizing, Point, TextAlign};

/// Leaf content = `MeasureSpec` in lean/TaffyVerif/Model/Prog.lean
#[derive(Clone, Copy, Debug, PartialEq)]
pub enum Ctx {
    Fixed(f32, f32),
    Wrap(f32, f32),
}

pub fn measure_ctx(c: &Ctx, known: Size<Option<f32>>, avail: Size<AvailableSpace>) -> Size<f32> {
    match *c {
        Ctx::Fixed(w, h) => Size { width: known.width.unwrap_or(w), height: known.height.unwrap_or(h) },
        Ctx::Wrap(w, h) => {
            let width = match known.width {
                Some(kw) => kw,
                None => match avail.width {
                    AvailableSpace::MinContent => w / 4.0,
                    AvailableSpace::MaxContent => w,
                    AvailableSpace::Definite(a) => a.min(w).max(w / 4.0),
                },
            };
            let lines = if width >= w {
                1.0
            } else if width >= w / 2.0 {
                2.0
            } else {
                4.0
            };
            Size { width, height: known.height.unwrap_or(h * lines) }
        }
    }
}

thread_local! {
    /// what the measure function answers for a childless node WITHOUT a context (default: zero, as the Lean model's `measureOf`).
    /// The C17 stream sets it to a non-zero size in a share of its cases: `compute_layout_with_measure` documents that the measure
    /// function is called for every leaf, with `None` when the node has no context, and may size it from the NodeId or the style
    /// (seeded change C17-3 skipped the call for context-less leaves).
    static NOCTX_SIZE: std::cell::Cell<Size<f32>> = const { std::cell::Cell::new(Size::ZERO) };
}
pub fn set_noctx_size(s: Size<f32>) {
    NOCTX_SIZE.with(|c| c.set(s));
}
pub fn noctx_size() -> Size<f32> {
    NOCTX_SIZE.with(|c| c.get())
}

/// the measure function handed to `compute_layout_with_measure`
pub fn measure(known: Size<Option<f32>>, avail: Size<AvailableSpace>, ctx: Option<&mut Ctx>) -> Size<f32> {
    match ctx {
        Some(c) => measure_ctx(c, known, avail),
        None => noctx_size(),
    }
}

#[derive(Clone, Debug)]
pub struct TreeDesc {
    pub style: Style,
    pub ctx: Option<Ctx>,
    pub children: Vec<TreeDesc>,
}

impl TreeDesc {
    pub fn count(&self) -> usize {
        1 + self.children.iter().map(|c| c.count()).sum::<usize>()
    }
    pub fn build(&self, t: &mut TaffyTree<Ctx>) -> NodeId {
        let kids: Vec<NodeId> = self.children.iter().map(|c| c.build(t)).collect();
        let n = match self.ctx {
            Some(c) => t.new_leaf_with_context(self.style.clone(), c).unwrap(),
            None => t.new_leaf(self.style.clone()).unwrap(),
        };
        if !kids.is_empty() {
            t.set_children(n, &kids).unwrap();
        }
        n
    }
    /// preorder: `<46 style tokens> <ctx> <nchildren>` per node
    pub fn line(&self) -> String {
        let mut s = String::new();
        self.line_into(&mut s);
        s
    }
    fn line_into(&self, s: &mut String) {
        if !s.is_empty() {
            s.push(' ');
        }
        s.push_str(&style_line(&self.style));
        s.push(' ');
        match self.ctx {
            None => s.push('-'),
            Some(Ctx::Fixed(w, h)) => s.push_str(&format!("f:{}:{}", hx(w), hx(h))),
            Some(Ctx::Wrap(w, h)) => s.push_str(&format!("w:{}:{}", hx(w), hx(h))),
        }
        s.push_str(&format!(" {}", self.children.len()));
        for c in &self.children {
            c.line_into(s);
        }
    }
    pub fn has_display(&self, d: Display) -> bool {
        self.style.display == d || self.children.iter().any(|c| c.has_display(d))
    }
    /// every node in preorder
    pub fn preorder<'a>(&'a self, out: &mut Vec<&'a TreeDesc>) {
        out.push(self);
        for c in &self.children {
            c.preorder(out);
        }
    }
    pub fn map_styles(&mut self, f: &mut dyn FnMut(&mut Style, &mut Option<Ctx>)) {
        f(&mut self.style, &mut self.ctx);
        for c in &mut self.children {
            c.map_styles(f);
        }
    }
}

/// node ids in preorder for a tree built by `TreeDesc::build`
pub fn preorder_ids(t: &TaffyTree<Ctx>, root: NodeId, out: &mut Vec<NodeId>) {
    out.push(root);
    for c in t.children(root).unwrap() {
        preorder_ids(t, c, out);
    }
}

#[derive(Clone)]
pub struct GenCfg {
    pub displays: Vec<Display>,
    pub max_nodes: usize,
    pub max_depth: usize,
    pub max_children: usize,
    pub allow_hidden: bool,
    pub allow_absolute: bool,
    pub allow_percent: bool,
    pub allow_aspect: bool,
    pub allow_content_box: bool,
    pub allow_auto_margin: bool,
    pub allow_negative_margin: bool,
    pub allow_scroll: bool,
    pub allow_wrap_ctx: bool,
    pub allow_grid_lines: bool,
}

impl GenCfg {
    pub fn all() -> Self {
        GenCfg {
            displays: vec![Display::Block, Display::Flex, Display::Grid],
            max_nodes: 10,
            max_depth: 3,
            max_children: 4,
            allow_hidden: true,
            allow_absolute: true,
            allow_percent: true,
            allow_aspect: true,
            allow_content_box: true,
            allow_auto_margin: true,
            allow_negative_margin: true,
            allow_scroll: true,
            allow_wrap_ctx: true,
            allow_grid_lines: true,
        }
    }
    pub fn only(displays: &[Display]) -> Self {
        let mut c = Self::all();
        c.displays = displays.to_vec();
        c
    }
}

fn g_dim(r: &mut Rng, c: &GenCfg) -> Dimension {
    match r.below(10) {
        0..=4 => Dimension::auto(),
        5 if c.allow_percent => Dimension::percent(gen_pct(r)),
        _ => Dimension::length(gen_len(r)),
    }
}
fn g_lp(r: &mut Rng, c: &GenCfg) -> LengthPercentage {
    match r.below(8) {
        0..=4 => LengthPercentage::length(0.0),
        5 if c.allow_percent => LengthPercentage::percent(gen_pct(r) * 0.25),
        _ => LengthPercentage::length(r.range(0, 40) as f32 * 0.25),
    }
}
fn g_margin(r: &mut Rng, c: &GenCfg) -> LengthPercentageAuto {
    match r.below(10) {
        0..=4 => LengthPercentageAuto::length(0.0),
        5 if c.allow_auto_margin => LengthPercentageAuto::auto(),
        6 if c.allow_percent => LengthPercentageAuto::percent(gen_pct(r) * 0.25),
        7 if c.allow_negative_margin => LengthPercentageAuto::length(-(r.range(0, 40) as f32) * 0.5),
        _ => LengthPercentageAuto::length(r.range(0, 60) as f32 * 0.5),
    }
}
fn g_overflow(r: &mut Rng, c: &GenCfg) -> Overflow {
    if !c.allow_scroll {
        return if r.chance(1, 8) { Overflow::Clip } else { Overflow::Visible };
    }
    gen_overflow(r)
}
fn g_align_items(r: &mut Rng) -> Option<AlignItems> {
    match r.below(12) {
        0..=4 => None,
        5 => Some(AlignItems::Start),
        6 => Some(AlignItems::End),
        7 => Some(AlignItems::FlexStart),
        8 => Some(AlignItems::FlexEnd),
        9 => Some(AlignItems::Center),
        10 => Some(AlignItems::Baseline),
        _ => Some(AlignItems::Stretch),
    }
}
fn g_align_content(r: &mut Rng) -> Option<AlignContent> {
    match r.below(14) {
        0..=4 => None,
        5 => Some(AlignContent::Start),
        6 => Some(AlignContent::End),
        7 => Some(AlignContent::FlexStart),
        8 => Some(AlignContent::FlexEnd),
        9 => Some(AlignContent::Center),
        10 => Some(AlignContent::Stretch),
        11 => Some(AlignContent::SpaceBetween),
        12 => Some(AlignContent::SpaceEvenly),
        _ => Some(AlignContent::SpaceAround),
    }
}

fn g_track(r: &mut Rng) -> NonRepeatedTrackSizingFunction {
    match r.below(8) {
        0 => auto(),
        1 => fr(1.0),
        2 => fr(*r.pick(&[0.5f32, 2.0, 3.0])),
        3 => min_content(),
        4 => max_content(),
        5 => minmax(length(r.range(0, 10) as f32 * 5.0), fr(1.0)),
        6 => percent(gen_pct(r) * 0.5),
        _ => length(r.range(0, 20) as f32 * 5.0),
    }
}
fn g_template(r: &mut Rng) -> Vec<TrackSizingFunction> {
    let n = r.below(4);
    let mut v = vec![];
    for _ in 0..n {
        if r.chance(1, 8) {
            v.push(repeat(r.range(1, 2) as u16, vec![g_track(r), g_track(r)]));
        } else {
            v.push(TrackSizingFunction::Single(g_track(r)));
        }
    }
    v
}
fn g_placement(r: &mut Rng, c: &GenCfg) -> Line<GridPlacement> {
    if !c.allow_grid_lines || r.chance(1, 2) {
        return Line { start: GridPlacement::Auto, end: GridPlacement::Auto };
    }
    let one = |r: &mut Rng| match r.below(4) {
        0 => GridPlacement::Auto,
        1 => GridPlacement::Span(r.range(1, 3) as u16),
        _ => GridPlacement::from_line_index(r.range(-4, 4) as i16),
    };
    Line { start: one(r), end: one(r) }
}

pub fn gen_style(r: &mut Rng, c: &GenCfg, is_leaf: bool, is_root: bool) -> Style {
    let mut s = Style::DEFAULT;
    s.display = *r.pick(&c.displays);
    if c.allow_hidden && !is_root && r.chance(1, 12) {
        s.display = Display::None;
    }
    if c.allow_absolute && !is_root && r.chance(1, 10) {
        s.position = Position::Absolute;
        s.inset = Rect { left: gen_inset(r), right: gen_inset(r), top: gen_inset(r), bottom: gen_inset(r) };
    } else if r.chance(1, 12) {
        // relative insets
        s.inset = Rect { left: gen_inset(r), right: gen_inset(r), top: gen_inset(r), bottom: gen_inset(r) };
    }
    if c.allow_content_box && r.chance(1, 6) {
        s.box_sizing = BoxSizing::ContentBox;
    }
    s.overflow = Point { x: g_overflow(r, c), y: g_overflow(r, c) };
    if r.chance(1, 3) {
        s.scrollbar_width = *r.pick(&[0.0, 4.0, 15.0]);
    }
    s.size = Size { width: g_dim(r, c), height: g_dim(r, c) };
    if r.chance(1, 4) {
        s.min_size = Size { width: g_dim(r, c), height: g_dim(r, c) };
    }
    if r.chance(1, 4) {
        s.max_size = Size { width: g_dim(r, c), height: g_dim(r, c) };
    }
    if c.allow_aspect && r.chance(1, 10) {
        s.aspect_ratio = Some(*r.pick(&[0.5, 1.0, 2.0, 4.0]));
    }
    if r.chance(1, 2) {
        s.margin = Rect { left: g_margin(r, c), right: g_margin(r, c), top: g_margin(r, c), bottom: g_margin(r, c) };
    }
    if r.chance(1, 3) {
        s.padding = Rect { left: g_lp(r, c), right: g_lp(r, c), top: g_lp(r, c), bottom: g_lp(r, c) };
    }
    if r.chance(1, 4) {
        s.border = Rect { left: g_lp(r, c), right: g_lp(r, c), top: g_lp(r, c), bottom: g_lp(r, c) };
    }
    s.align_items = g_align_items(r);
    s.align_self = g_align_items(r);
    s.justify_items = g_align_items(r);
    s.justify_self = g_align_items(r);
    s.align_content = g_align_content(r);
    s.justify_content = g_align_content(r);
    if r.chance(1, 3) {
        s.gap = Size { width: g_lp(r, c), height: g_lp(r, c) };
    }
    s.text_align = *r.pick(&[TextAlign::Auto, TextAlign::Auto, TextAlign::Auto, TextAlign::LegacyLeft, TextAlign::LegacyRight, TextAlign::LegacyCenter]);
    s.flex_direction = *r.pick(&[FlexDirection::Row, FlexDirection::Row, FlexDirection::Column, FlexDirection::RowReverse, FlexDirection::ColumnReverse]);
    s.flex_wrap = *r.pick(&[FlexWrap::NoWrap, FlexWrap::NoWrap, FlexWrap::Wrap, FlexWrap::WrapReverse]);
    if r.chance(1, 4) {
        s.flex_basis = g_dim(r, c);
    }
    s.flex_grow = *r.pick(&[0.0, 0.0, 1.0, 2.0, 0.5]);
    s.flex_shrink = *r.pick(&[1.0, 1.0, 0.0, 2.0, 0.5]);
    if s.display == Display::Grid && !is_leaf {
        s.grid_template_columns = g_template(r);
        s.grid_template_rows = g_template(r);
        if r.chance(1, 3) {
            s.grid_auto_rows = vec![g_track(r)];
        }
        if r.chance(1, 3) {
            s.grid_auto_columns = vec![g_track(r)];
        }
        s.grid_auto_flow = *r.pick(&[GridAutoFlow::Row, GridAutoFlow::Column, GridAutoFlow::RowDense, GridAutoFlow::ColumnDense]);
    }
    s.grid_row = g_placement(r, c);
    s.grid_column = g_placement(r, c);
    s
}

pub fn gen_ctx(r: &mut Rng, c: &GenCfg) -> Option<Ctx> {
    match r.below(6) {
        0 | 1 => None,
        2 if c.allow_wrap_ctx => Some(Ctx::Wrap(r.range(1, 30) as f32 * 4.0, r.range(1, 8) as f32 * 2.5)),
        _ => Some(Ctx::Fixed(r.range(0, 60) as f32 * 0.5, r.range(0, 40) as f32 * 0.5)),
    }
}

pub fn gen_tree(r: &mut Rng, c: &GenCfg) -> TreeDesc {
    let mut budget = 1 + r.below(c.max_nodes);
    gen_node(r, c, 0, &mut budget, true)
}

fn gen_node(r: &mut Rng, c: &GenCfg, depth: usize, budget: &mut usize, is_root: bool) -> TreeDesc {
    *budget = budget.saturating_sub(1);
    let nkids = if depth >= c.max_depth || *budget == 0 { 0 } else { r.below(c.max_children + 1).min(*budget) };
    let mut children = vec![];
    for _ in 0..nkids {
        if *budget == 0 {
            break;
        }
        children.push(gen_node(r, c, depth + 1, budget, false));
    }
    let is_leaf = children.is_empty();
    let style = gen_style(r, c, is_leaf, is_root);
    let ctx = if is_leaf { gen_ctx(r, c) } else { None };
    TreeDesc { style, ctx, children }
}

pub fn gen_available(r: &mut Rng) -> Size<AvailableSpace> {
    let one = |r: &mut Rng| match r.below(6) {
        0 => AvailableSpace::MinContent,
        1 => AvailableSpace::MaxContent,
        _ => AvailableSpace::Definite(r.range(0, 80) as f32 * 5.0),
    };
    Size { width: one(r), height: one(r) }
}

/// run `f` catching panics; Err carries the panic message
pub fn catch<T>(f: impl FnOnce() -> T) -> Result<T, String> {
    match std::panic::catch_unwind(std::panic::AssertUnwindSafe(f)) {
        Ok(v) => Ok(v),
        Err(e) => {
            let msg = if let Some(s) = e.downcast_ref::<&str>() {
                s.to_string()
            } else if let Some(s) = e.downcast_ref::<String>() {
                s.clone()
            } else {
                "panic".to_string()
            };
            Err(msg)
        }
    }
}

/// lay a description out on a fresh tree; returns (tree, root)
pub fn layout_fresh(d: &TreeDesc, avail: Size<AvailableSpace>, rounding: bool) -> Result<(TaffyTree<Ctx>, NodeId), String> {
    catch(|| {
        let mut t: TaffyTree<Ctx> = TaffyTree::new();
        if !rounding {
            t.disable_rounding();
        }
        let root = d.build(&mut t);
        t.compute_layout_with_measure(root, avail, |k, a, _id, ctx, _style| measure(k, a, ctx)).unwrap();
        (t, root)
    })
}

pub fn all_layouts(t: &TaffyTree<Ctx>, root: NodeId, unrounded: bool) -> Vec<Layout> {
    let mut ids = vec![];
    preorder_ids(t, root, &mut ids);
    ids.iter().map(|id| if unrounded { *t.unrounded_layout(*id) } else { *t.layout(*id).unwrap() }).collect()
}
