//! C10 — block flow. Runs the real `compute_block_layout` through `TaffyTree` on generated block containers and records,
//! via the `taffy::verif_trace` hook, every invocation of the container under test: its `LayoutInput`, every child query
//! it made (child index, input, output — in order), every layout it set and its `LayoutOutput`.
//!
//! request : `block <11 input tokens> <46 container style tokens> <n> <n × 46 child style tokens>
//!                  <m> <m × (child, 11 input tokens, 11 output tokens)>`
//! answer  : `<11 output tokens> | <k> <k × (child, 21 layout tokens)> | q ok`
//! The Lean side runs `BlockModel.computeBlockLayout` with the recorded child answers as oracle, requiring that its
//! queries are exactly the recorded ones in the recorded order.
use crate::c02::{show_av, show_mode};
use crate::common::*;
use crate::stylefmt::*;
use crate::treegen::*;
use taffy::prelude::*;
use taffy::style::Overflow;
use taffy::verif_trace::{self, VerifEvent};
use taffy::{BoxSizing, Layout, LayoutInput, LayoutOutput, Point, RequestedAxis, RunMode, SizingMode, TextAlign};

fn show_input(i: &LayoutInput) -> String {
    format!(
        "{} {} {} {} {} {} {} {} {} {} {}",
        show_mode(i.run_mode),
        match i.sizing_mode {
            SizingMode::InherentSize => "I",
            SizingMode::ContentSize => "C",
        },
        match i.axis {
            RequestedAxis::Horizontal => "h",
            RequestedAxis::Vertical => "v",
            RequestedAxis::Both => "b",
        },
        hxo(i.known_dimensions.width),
        hxo(i.known_dimensions.height),
        hxo(i.parent_size.width),
        hxo(i.parent_size.height),
        show_av(i.available_space.width),
        show_av(i.available_space.height),
        if i.vertical_margins_are_collapsible.start { 1 } else { 0 },
        if i.vertical_margins_are_collapsible.end { 1 } else { 0 },
    )
}

/// 11 tokens, raw bits (`z` = map −0.0 to +0.0, used for answers)
fn show_output(o: &LayoutOutput, z: bool) -> String {
    let f = |x: f32| if z { hxz(x) } else { hx(x) };
    let fo = |x: Option<f32>| match x {
        None => "-".to_string(),
        Some(v) => f(v),
    };
    let (tp, tn) = o.top_margin.verif_parts();
    let (bp, bn) = o.bottom_margin.verif_parts();
    format!(
        "{} {} {} {} {} {} {} {} {} {} {}",
        f(o.size.width),
        f(o.size.height),
        f(o.content_size.width),
        f(o.content_size.height),
        fo(o.first_baselines.x),
        fo(o.first_baselines.y),
        f(tp),
        f(tn),
        f(bp),
        f(bn),
        if o.margins_can_collapse_through { 1 } else { 0 }
    )
}

/// one recorded invocation of the container under test
struct Invocation {
    input: LayoutInput,
    output: LayoutOutput,
    queries: Vec<(usize, LayoutInput, LayoutOutput)>,
    sets: Vec<(usize, Layout)>,
}

/// reconstruct the invocations of `node` from the flat event list
fn invocations(events: &[VerifEvent], node: u64, kids: &[u64]) -> Result<Vec<Invocation>, String> {
    let mut res = vec![];
    // stack of open frames (node ids); `cur` = index into `res` of the open invocation of `node` when it is the top frame's parent
    let mut stack: Vec<u64> = vec![];
    let mut open: Option<(usize, Invocation)> = None; // (stack depth of the frame, invocation)
    let idx_of = |id: u64| kids.iter().position(|k| *k == id);
    for e in events {
        match e {
            VerifEvent::Enter(id, inp) => {
                if let Some((d, inv)) = open.as_mut() {
                    if stack.len() == *d + 1 {
                        // a direct child query starts; it is recorded at its Exit
                        if idx_of(*id).is_none() {
                            return Err("query to a non-child".into());
                        }
                        let _ = inv;
                    }
                }
                stack.push(*id);
                if *id == node && open.is_none() {
                    open = Some((stack.len() - 1, Invocation { input: *inp, output: LayoutOutput::HIDDEN, queries: vec![], sets: vec![] }));
                }
            }
            VerifEvent::Exit(id, inp, outp) => {
                let top = stack.pop().ok_or("exit without enter")?;
                if top != *id {
                    return Err("unbalanced trace".into());
                }
                let mut close = false;
                if let Some((d, inv)) = open.as_mut() {
                    if stack.len() == *d + 1 {
                        let k = idx_of(*id).ok_or("query to a non-child")?;
                        inv.queries.push((k, *inp, *outp));
                    } else if stack.len() == *d {
                        inv.output = *outp;
                        close = true;
                    }
                }
                if close {
                    res.push(open.take().unwrap().1);
                }
            }
            VerifEvent::Hit(id, inp, outp) => {
                if let Some((d, inv)) = open.as_mut() {
                    if stack.len() == *d + 1 {
                        let k = idx_of(*id).ok_or("query to a non-child")?;
                        inv.queries.push((k, *inp, *outp));
                    }
                }
            }
            VerifEvent::Hidden(id, inp) => {
                if let Some((d, inv)) = open.as_mut() {
                    if stack.len() == *d + 1 {
                        let k = idx_of(*id).ok_or("query to a non-child")?;
                        inv.queries.push((k, *inp, LayoutOutput::HIDDEN));
                        return Err("hidden-mode query issued by a block container".into());
                    }
                }
            }
            VerifEvent::Set(id, l) => {
                if let Some((d, inv)) = open.as_mut() {
                    if stack.len() == *d + 1 {
                        let k = idx_of(*id).ok_or("layout set on a non-child")?;
                        inv.sets.push((k, *l));
                    }
                }
            }
        }
    }
    Ok(res)
}

// ---------------------------------------------------------------------------------------------------------
// generators

const MARGINS: [f32; 10] = [-8.0, 0.0, 5.0, 10.0, 20.0, -5.0, -20.0, 2.5, 0.0, 10.0];

fn g_vmargin(r: &mut Rng) -> LengthPercentageAuto {
    match r.below(12) {
        0 => LengthPercentageAuto::auto(),
        1 => LengthPercentageAuto::percent(*r.pick(&[0.125, 0.25, -0.125, 0.0])),
        _ => LengthPercentageAuto::length(*r.pick(&MARGINS)),
    }
}
fn g_hmargin(r: &mut Rng) -> LengthPercentageAuto {
    match r.below(10) {
        0 | 1 => LengthPercentageAuto::auto(),
        2 => LengthPercentageAuto::percent(*r.pick(&[0.125, 0.25, -0.125])),
        3 | 4 | 5 => LengthPercentageAuto::length(0.0),
        _ => LengthPercentageAuto::length(*r.pick(&MARGINS)),
    }
}
fn g_height(r: &mut Rng) -> Dimension {
    match r.below(12) {
        0..=4 => Dimension::auto(),
        5 | 6 => Dimension::length(0.0),
        7 => Dimension::percent(*r.pick(&[0.0, 0.25, 0.5, 1.0])),
        _ => Dimension::length(*r.pick(&[10.0, 20.0, 7.5, 50.0, 100.0])),
    }
}
fn g_width(r: &mut Rng) -> Dimension {
    match r.below(12) {
        0..=5 => Dimension::auto(),
        6 => Dimension::length(0.0),
        7 | 8 => Dimension::percent(*r.pick(&[0.0, 0.25, 0.5, 1.0, 1.5])),
        _ => Dimension::length(*r.pick(&[10.0, 40.0, 62.5, 100.0, 300.0])),
    }
}
fn g_pb(r: &mut Rng) -> LengthPercentage {
    match r.below(8) {
        0..=3 => LengthPercentage::length(0.0),
        4 => LengthPercentage::percent(*r.pick(&[0.0, 0.125, 0.25])),
        _ => LengthPercentage::length(*r.pick(&[1.0, 2.5, 5.0, 10.0])),
    }
}
fn g_rect_pb(r: &mut Rng) -> Rect<LengthPercentage> {
    Rect { left: g_pb(r), right: g_pb(r), top: g_pb(r), bottom: g_pb(r) }
}

/// block-relevant style fields on top of `base`
fn block_fields(r: &mut Rng, s: &mut Style, is_container: bool) {
    s.size = Size { width: g_width(r), height: g_height(r) };
    s.min_size = Size::auto();
    s.max_size = Size::auto();
    if r.chance(1, 5) {
        s.min_size = Size { width: g_width(r), height: g_height(r) };
    }
    if r.chance(1, 5) {
        s.max_size = Size { width: g_width(r), height: g_height(r) };
    }
    s.aspect_ratio = if r.chance(1, 12) { Some(*r.pick(&[0.5, 1.0, 2.0])) } else { None };
    s.margin = Rect::zero();
    if r.chance(3, 4) {
        s.margin = Rect {
            left: if r.chance(1, 2) { g_hmargin(r) } else { LengthPercentageAuto::length(0.0) },
            right: if r.chance(1, 2) { g_hmargin(r) } else { LengthPercentageAuto::length(0.0) },
            top: g_vmargin(r),
            bottom: g_vmargin(r),
        };
    }
    s.padding = Rect::zero();
    s.border = Rect::zero();
    let pbp = if is_container { 3 } else { 6 };
    if r.chance(1, pbp) {
        s.padding = g_rect_pb(r);
    }
    if r.chance(1, pbp + 1) {
        s.border = g_rect_pb(r);
    }
    s.box_sizing = if r.chance(1, 8) { BoxSizing::ContentBox } else { BoxSizing::BorderBox };
    s.overflow = Point { x: Overflow::Visible, y: Overflow::Visible };
    if r.chance(1, 5) {
        s.overflow = Point { x: gen_overflow(r), y: gen_overflow(r) };
    }
    s.scrollbar_width = if r.chance(1, 4) { *r.pick(&[4.0, 15.0]) } else { 0.0 };
    s.text_align = *r.pick(&[TextAlign::Auto, TextAlign::Auto, TextAlign::LegacyLeft, TextAlign::LegacyRight, TextAlign::LegacyCenter]);
    s.item_is_table = r.chance(1, 16);
    s.inset = Rect::auto();
    s.position = Position::Relative;
}

fn child_position(r: &mut Rng, s: &mut Style, allow_abs: bool) {
    if allow_abs && r.chance(1, 9) {
        s.position = Position::Absolute;
        s.inset = Rect { left: gen_inset(r), right: gen_inset(r), top: gen_inset(r), bottom: gen_inset(r) };
    } else if r.chance(1, 8) {
        s.inset = Rect { left: gen_inset(r), right: gen_inset(r), top: gen_inset(r), bottom: gen_inset(r) };
    }
}

fn leaf(style: Style, ctx: Option<Ctx>) -> TreeDesc {
    TreeDesc { style, ctx, children: vec![] }
}

/// a child subtree of the container under test
fn gen_child(r: &mut Rng, depth: usize, allow_abs: bool) -> TreeDesc {
    let kind = r.below(16);
    let mut d = match kind {
        // empty box: collapse-through candidate
        0..=2 => {
            let mut s = Style::DEFAULT;
            s.display = Display::Block;
            block_fields(r, &mut s, false);
            if r.chance(2, 3) {
                s.size.height = Dimension::auto();
                s.min_size = Size::auto();
                s.padding = Rect::zero();
                s.border = Rect::zero();
            }
            leaf(s, None)
        }
        // leaf with content
        3..=7 => {
            let mut s = Style::DEFAULT;
            s.display = *r.pick(&[Display::Block, Display::Block, Display::Flex, Display::Grid]);
            block_fields(r, &mut s, false);
            let ctx = match r.below(4) {
                0 => Ctx::Wrap(r.range(1, 30) as f32 * 4.0, r.range(1, 8) as f32 * 2.5),
                1 => Ctx::Fixed(r.range(0, 60) as f32 * 0.5, 0.0),
                _ => Ctx::Fixed(r.range(0, 60) as f32 * 0.5, r.range(0, 40) as f32 * 0.5),
            };
            leaf(s, Some(ctx))
        }
        // nested block
        8..=11 if depth < 2 => {
            let mut s = Style::DEFAULT;
            s.display = Display::Block;
            block_fields(r, &mut s, true);
            if r.chance(1, 2) {
                s.padding = Rect::zero();
                s.border = Rect::zero();
            }
            let n = 1 + r.below(3);
            let children = (0..n).map(|_| gen_child(r, depth + 1, allow_abs)).collect();
            TreeDesc { style: s, ctx: None, children }
        }
        // nested flex / grid subtree from the shared tree generator
        _ => {
            let mut c = GenCfg::only(&[*r.pick(&[Display::Flex, Display::Grid, Display::Block])]);
            c.max_nodes = 4;
            c.max_depth = 2;
            c.allow_hidden = true;
            let mut t = gen_tree(r, &c);
            if r.chance(1, 2) {
                t.style.margin.top = g_vmargin(r);
                t.style.margin.bottom = g_vmargin(r);
            }
            t.style.position = Position::Relative;
            t.style.inset = Rect::auto();
            t
        }
    };
    child_position(r, &mut d.style, allow_abs);
    if r.chance(1, 14) {
        d.style.display = Display::None;
    }
    d
}

fn gen_container(r: &mut Rng) -> TreeDesc {
    let mut s = Style::DEFAULT;
    s.display = Display::Block;
    block_fields(r, &mut s, true);
    s.item_is_table = false;
    let allow_abs = r.chance(2, 3);
    let n = 1 + r.below(5);
    let children: Vec<TreeDesc> = (0..n).map(|_| gen_child(r, 0, allow_abs)).collect();
    TreeDesc { style: s, ctx: None, children }
}

fn len(v: f32) -> LengthPercentageAuto {
    LengthPercentageAuto::length(v)
}
fn block_style() -> Style {
    let mut s = Style::DEFAULT;
    s.display = Display::Block;
    s
}

/// fixed witnesses (DESIGN.md §8 C10 / §9 items 8 and 16) — both repaired in the repository
fn fixed_cases() -> Vec<(TreeDesc, Vec<usize>, Size<AvailableSpace>, &'static str)> {
    let mut v = vec![];
    // 8: 200-high block; a 50%-high block child with one empty child, followed by a sibling
    {
        let mut root = block_style();
        root.size = Size { width: Dimension::length(100.0), height: Dimension::length(200.0) };
        let mut a = block_style();
        a.size.height = Dimension::percent(0.5);
        let empty = leaf(block_style(), None);
        let mut b = block_style();
        b.size.height = Dimension::length(10.0);
        let d = TreeDesc { style: root, ctx: None, children: vec![TreeDesc { style: a, ctx: None, children: vec![empty] }, leaf(b, None)] };
        v.push((d, vec![], Size::MAX_CONTENT, "fixed-defect8-percent-height-collapse"));
    }
    // 16: margin sets {10, −8} / {20, −5} built by nesting
    {
        let mut root = block_style();
        root.size.width = Dimension::length(100.0);
        root.padding.top = LengthPercentage::length(1.0);
        let mut s1 = block_style();
        s1.margin.bottom = len(-8.0);
        let mut s1c = block_style();
        s1c.size.height = Dimension::length(10.0);
        s1c.margin.bottom = len(10.0);
        let mut s2 = block_style();
        s2.margin.top = len(-5.0);
        let mut s2c = block_style();
        s2c.size.height = Dimension::length(10.0);
        s2c.margin.top = len(20.0);
        let d = TreeDesc {
            style: root,
            ctx: None,
            children: vec![
                TreeDesc { style: s1, ctx: None, children: vec![leaf(s1c, None)] },
                TreeDesc { style: s2, ctx: None, children: vec![leaf(s2c, None)] },
            ],
        };
        v.push((d, vec![], Size::MAX_CONTENT, "fixed-defect16-mixed-sign-sets"));
    }
    // plain sibling margins: every sign combination, with an empty box in between
    {
        let mut root = block_style();
        root.size.width = Dimension::length(80.0);
        let mut kids = vec![];
        for (mb, mt) in [(10.0, 5.0), (10.0, -8.0), (-8.0, -5.0), (-8.0, 20.0)] {
            let mut a = block_style();
            a.size.height = Dimension::length(10.0);
            a.margin.bottom = len(mb);
            a.margin.top = len(mt);
            kids.push(leaf(a, None));
            let mut e = block_style();
            e.margin.top = len(2.5);
            e.margin.bottom = len(-20.0);
            kids.push(leaf(e, None));
        }
        v.push((TreeDesc { style: root, ctx: None, children: kids }, vec![], Size::MAX_CONTENT, "fixed-sign-combinations"));
    }
    // the container nested one level down in a block (percentage height known from the parent, collapsible margins)
    {
        let mut outer = block_style();
        outer.size = Size { width: Dimension::length(120.0), height: Dimension::length(200.0) };
        let mut c = block_style();
        c.size.height = Dimension::percent(0.5);
        c.margin.top = len(10.0);
        let mut k = block_style();
        k.margin.top = len(20.0);
        k.size.height = Dimension::length(10.0);
        let mut sib = block_style();
        sib.size.height = Dimension::length(10.0);
        let d = TreeDesc {
            style: outer,
            ctx: None,
            children: vec![TreeDesc { style: c, ctx: None, children: vec![leaf(k, Some(Ctx::Fixed(5.0, 5.0))), leaf(block_style(), None)] }, leaf(sib, None)],
        };
        v.push((d, vec![0], Size::MAX_CONTENT, "fixed-nested-percent-height"));
    }
    // defect found while building this check, repaired in the repository (0961b7f): a block with a percentage vertical
    // padding whose containing block is 0 wide (or whose first, cached, measurement had no parent width) reported
    // `margins_can_collapse_through` with a non-zero height, because the test looked at the padding resolved against the
    // parent width while the height used the padding resolved against the block's own width; the next sibling was then
    // placed on top of it.
    for (rootw, label) in [(Dimension::length(0.0), "fixed-pct-padding-zero-width-parent"), (Dimension::auto(), "fixed-pct-padding-cached-measure")] {
        let mut root = block_style();
        root.size.width = rootw;
        let auto_root = rootw == Dimension::auto();
        let mut c = block_style();
        // zero-width parent: the block has its own width; cached measure: its content is as wide as the container becomes
        c.size.width = if auto_root { Dimension::auto() } else { Dimension::length(40.0) };
        c.padding.top = LengthPercentage::percent(0.25);
        let mut sib = block_style();
        sib.size.height = Dimension::length(10.0);
        let d = TreeDesc {
            style: root,
            ctx: None,
            children: vec![
                TreeDesc { style: c, ctx: None, children: vec![leaf(block_style(), if auto_root { Some(Ctx::Fixed(50.0, 0.0)) } else { None })] },
                leaf(sib, Some(Ctx::Fixed(50.0, 10.0))),
            ],
        };
        v.push((d, vec![], Size::MAX_CONTENT, label));
    }
    v
}

fn node_at(t: &TaffyTree<Ctx>, root: NodeId, path: &[usize]) -> NodeId {
    let mut n = root;
    for k in path {
        n = t.children(n).unwrap()[*k];
    }
    n
}
fn desc_at<'a>(d: &'a TreeDesc, path: &[usize]) -> &'a TreeDesc {
    let mut n = d;
    for k in path {
        n = &n.children[*k];
    }
    n
}

/// implementation-side oracle: non-negative plain margins, no insets, leaf children that are not collapsed through
/// must be stacked without overlap and the gap between neighbours must be the larger margin
fn impl_oracle(out: &mut Out, inv: &Invocation, cdesc: &TreeDesc) {
    if inv.input.run_mode != RunMode::PerformLayout {
        return;
    }
    // last query per child = final pass
    let n = cdesc.children.len();
    let mut last: Vec<Option<(LayoutInput, LayoutOutput)>> = vec![None; n];
    for (k, i, o) in &inv.queries {
        last[*k] = Some((*i, *o));
    }
    let mut lay: Vec<Option<Layout>> = vec![None; n];
    for (k, l) in &inv.sets {
        lay[*k] = Some(*l);
    }
    let mut prev: Option<(f32, f32, f32)> = None; // (y, h, margin-bottom) of the previous simple child
    for (k, ch) in cdesc.children.iter().enumerate() {
        let s = &ch.style;
        if s.display == Display::None || s.position == Position::Absolute {
            continue;
        }
        let plain = |m: LengthPercentageAuto| {
            let raw = m.into_raw();
            if raw.tag() == taffy::style::CompactLength::LENGTH_TAG {
                Some(raw.value())
            } else {
                None
            }
        };
        let simple = ch.children.is_empty()
            && s.inset == Rect::auto()
            && plain(s.margin.top).map_or(false, |v| v >= 0.0)
            && plain(s.margin.bottom).map_or(false, |v| v >= 0.0);
        let (Some((_, o)), Some(l)) = (last[k], lay[k]) else {
            prev = None;
            continue;
        };
        if !simple || o.margins_can_collapse_through {
            prev = None;
            continue;
        }
        let mt = plain(s.margin.top).unwrap();
        let mb = plain(s.margin.bottom).unwrap();
        if let Some((py, ph, pmb)) = prev {
            let gap = l.location.y - (py + ph);
            let want = pmb.max(mt);
            let tol = (py.abs() + ph.abs() + l.location.y.abs() + 1.0) / 262144.0;
            if (gap - want).abs() > tol {
                out.impl_violation(format!("sig:sibling-gap child {k}: gap {gap} expected {want}"));
            }
            out.count("oracle:gap-checked");
        }
        prev = Some((l.location.y, l.size.height, mb));
    }
}

fn run_case(out: &mut Out, d: &TreeDesc, path: &[usize], avail: Size<AvailableSpace>) {
    let cdesc = desc_at(d, path);
    let res = catch(|| {
        let mut t: TaffyTree<Ctx> = TaffyTree::new();
        t.disable_rounding();
        let root = d.build(&mut t);
        let c = node_at(&t, root, path);
        let kids: Vec<u64> = t.children(c).unwrap().iter().map(|k| u64::from(*k)).collect();
        verif_trace::start();
        t.compute_layout_with_measure(root, avail, |k, a, _id, ctx, _style| measure(k, a, ctx)).unwrap();
        let ev = verif_trace::take();
        invocations(&ev, u64::from(c), &kids)
    });
    let invs = match res {
        Ok(Ok(v)) => v,
        Ok(Err(e)) => {
            out.notes.push(format!("case {}: trace reconstruction failed: {e}", out.cur_case));
            out.count("trace-error");
            return;
        }
        Err(_) => {
            let _ = verif_trace::take();
            out.count("panic");
            return;
        }
    };
    let mut head = String::new();
    head.push_str(&style_line(&cdesc.style));
    head.push_str(&format!(" {}", cdesc.children.len()));
    for ch in &cdesc.children {
        head.push(' ');
        head.push_str(&style_line(&ch.style));
    }
    out.count(&format!("invocations:{}", invs.len().min(4)));
    for inv in &invs {
        let mut req = format!("block {} {} {}", show_input(&inv.input), head, inv.queries.len());
        for (k, i, o) in &inv.queries {
            req.push_str(&format!(" {} {} {}", k, show_input(i), show_output(o, false)));
        }
        let mut ans = format!("{} | {}", show_output(&inv.output, true), inv.sets.len());
        for (k, l) in &inv.sets {
            ans.push_str(&format!(" {} {}", k, layout_line(l)));
        }
        ans.push_str(" | q ok");
        out.qa(&req, &ans);
        out.count(&format!("mode:{}", show_mode(inv.input.run_mode)));
        out.count(&format!("queries:{}", inv.queries.len().min(12)));
        if inv.input.known_dimensions.width.is_none() {
            out.count("container:content-width");
        }
        if inv.input.known_dimensions.height.is_some() {
            out.count("container:known-height");
        }
        if inv.output.margins_can_collapse_through {
            out.count("container:collapsed-through");
        }
        let (tp, tn) = inv.output.top_margin.verif_parts();
        if tp != 0.0 && tn != 0.0 {
            out.count("container:mixed-top-set");
        }
        let nct = inv.queries.iter().filter(|q| q.2.margins_can_collapse_through).count();
        if nct > 0 {
            out.count("child:collapsed-through");
        }
        if inv.sets.len() >= 2 {
            out.nontrivial();
        }
        impl_oracle(out, inv, cdesc);
    }
    for ch in &cdesc.children {
        let s = &ch.style;
        out.count(&format!(
            "child:{}",
            if s.display == Display::None {
                "hidden"
            } else if s.position == Position::Absolute {
                "absolute"
            } else if ch.children.is_empty() {
                if ch.ctx.is_some() {
                    "leaf"
                } else {
                    "empty"
                }
            } else {
                match s.display {
                    Display::Block => "block",
                    Display::Flex => "flex",
                    Display::Grid => "grid",
                    Display::None => "hidden",
                }
            }
        ));
    }
}

pub fn run(cfg: &Cfg, out: &mut Out) -> String {
    let n = cfg.n(2500, 150_000);
    let mut idx = 0u64;
    for (d, path, avail, label) in fixed_cases() {
        if cfg.wants(idx) {
            out.begin_case(idx, label);
            run_case(out, &d, &path, avail);
        }
        idx += 1;
    }
    for _ in 0..n {
        if cfg.wants(idx) {
            let mut r = Rng::for_case(cfg.seed, idx);
            let c = gen_container(&mut r);
            // placement of the container under test: root, or one level down in a block / flex / grid parent
            let (d, path, label) = match r.below(8) {
                0..=2 => (c, vec![], "root"),
                3..=5 => {
                    let mut p = block_style();
                    block_fields(&mut r, &mut p, true);
                    p.item_is_table = false;
                    let mut kids = vec![];
                    if r.chance(1, 2) {
                        kids.push(gen_child(&mut r, 1, false));
                    }
                    let k = kids.len();
                    let mut c = c;
                    child_position(&mut r, &mut c.style, true);
                    kids.push(c);
                    if r.chance(1, 2) {
                        kids.push(gen_child(&mut r, 1, false));
                    }
                    (TreeDesc { style: p, ctx: None, children: kids }, vec![k], "in-block")
                }
                6 => {
                    let mut p = Style::DEFAULT;
                    p.display = Display::Flex;
                    p.flex_direction = *r.pick(&[FlexDirection::Row, FlexDirection::Column]);
                    p.size = Size { width: g_width(&mut r), height: g_height(&mut r) };
                    (TreeDesc { style: p, ctx: None, children: vec![c] }, vec![0], "in-flex")
                }
                _ => {
                    let mut p = Style::DEFAULT;
                    p.display = Display::Grid;
                    p.size = Size { width: g_width(&mut r), height: g_height(&mut r) };
                    (TreeDesc { style: p, ctx: None, children: vec![c] }, vec![0], "in-grid")
                }
            };
            let avail = gen_available(&mut r);
            out.begin_case(idx, label);
            out.count(&format!("placement:{label}"));
            run_case(out, &d, &path, avail);
        }
        idx += 1;
    }
    // tree-level stream (whole trees against Spec/MarginCollapse.lean); its case indices start at c10tree::BASE
    crate::c10tree::run(cfg, out);
    String::new()
}
