#!/usr/bin/env python3
"""checklib/gen_fingerprints.py — record the sha256 of every /repo/src/**/*.rs as it stands (run after every commit to /repo that the
checks have been brought up to date with). ./check multiplies its quick-tier case counts when the sources differ from this record."""
import os, json, hashlib, subprocess
VERIF = os.path.dirname(os.path.dirname(os.path.abspath(__file__)))
REPO = os.environ.get("VERIF_REPO", os.path.normpath(os.path.join(VERIF, "..", "repo")))
files = {}
for root, _, fs in os.walk(os.path.join(REPO, "src")):
    for f in fs:
        if f.endswith(".rs"):
            p = os.path.join(root, f)
            files[os.path.relpath(p, REPO)] = hashlib.sha256(open(p, "rb").read()).hexdigest()
head = subprocess.run(["git", "-C", REPO, "rev-parse", "--short", "HEAD"], capture_output=True, text=True).stdout.strip()
json.dump({"repo_head": head, "files": dict(sorted(files.items()))}, open(os.path.join(VERIF, "checklib", "fingerprints.json"), "w"), indent=1)
print(f"{len(files)} files fingerprinted at {head}")
