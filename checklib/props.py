"""Per-property configuration of ./check: Lean modules, the theorems that are the proof obligations,
the harness/driver handler names, and the statements that go into the evidence."""

PROPS = {
    "C02": {
        "modules": ["TaffyVerif.Props.C02"],
        "theorems": [
            "C02.slot_lt", "C02.inv_runH", "C02.get_sound", "C02.hit_until_displaced_final",
            "C02.hit_until_displaced_measure", "C02.clear_misses", "C02.flag_agrees",
            "C02.hidden_never_cached", "C02.nan_key_misses",
        ],
        "harness": "C02", "driver": "C02", "monitor": True,
        "rule": "random get/store/clear/is_empty sequences on taffy::Cache over a colliding value pool "
                "(0, 1, 1±ε/2, 1+ε, 1+2ε, 7.5, NaN, −0.0, ∞, 100), keys reused and perturbed; thorough adds every "
                "length-3 sequence over a 58-op alphabet. Non-trivial = the sequence contains at least one cache hit; "
                "distinct = distinct request/answer transcripts.",
        "trusted_base": [
            "model of src/tree/cache.rs is hand-written (Model/Cache.lean); tied to the code by bit-exact comparison "
            "of every answer of the public Cache API on generated sequences",
            "theorems hold for every Num instance, hence also for the Float32 instance the tie executes; "
            "Lean's Float32 ==,<,-,abs are assumed to be IEEE binary32 as Rust's",
        ],
        "assumptions": ["compute_cache_slot is private: observed only through store/get behaviour"],
        "level_text": "Every finite history of get/store/clear/is_empty from Cache::new() is covered by theorems (induction over the "
                      "history, for every Num instance): a hit is explained by a live, same-mode, axis-compatible store and returns its "
                      "content; a live self-compatible store is hit; clear makes everything miss; hidden mode is never cached; the "
                      "is_empty field agrees with the observer; the slot index is < 9. The model is tied to cache.rs by bit-exact "
                      "comparison on generated sequences.",
        "level_note": "Trusted: Lean kernel; hand-written model of cache.rs (validated by the correspondence run, Float32 bit-exact); "
                      "Lean Float32 = IEEE binary32. Axioms: propext, Quot.sound.",
        "technique": "Lean 4 invariant proof by induction over operation histories + differential correspondence with taffy::Cache",
    },
}

PROPS["C18"] = {
    "modules": ["TaffyVerif.Props.C18"],
    "theorems": [
        "C18.pack_tag", "C18.pack_value", "C18.pack_low3", "C18.from_val_tag", "C18.from_val_value",
        "C18.tags_distinct", "C18.tags_small_nonzero_low3", "C18.calc_tag_zero",
        "C18.length_roundtrip", "C18.percent_roundtrip", "C18.fr_roundtrip", "C18.fit_content_px_roundtrip",
        "C18.fit_content_percent_roundtrip", "C18.unit_tags", "C18.numeric_not_calc", "C18.unit_not_calc",
        "C18.calc_roundtrip", "C18.calc_tag_separate", "C18.predicates_length", "C18.predicates_percent",
        "C18.predicates_fr", "C18.predicates_fit_content", "C18.predicates_unit", "C18.is_zero_iff",
        "C18.resolve_length", "C18.resolve_percent", "C18.resolve_auto", "C18.resolve_or_zero_spec", "C18.resolve_calc",
    ],
    "harness": "C18", "driver": "C18", "monitor": False,
    "rule": "stratified 32-bit payloads (every exponent, NaN payload edges, single-bit and low-byte patterns that would alias a tag "
            "under an off-by-one shift) × the five numeric constructors, each also resolved through LengthPercentage / "
            "LengthPercentageAuto / Dimension / Min-/MaxTrackSizingFunction against None/Some contexts, plus 8-aligned calc pointers; "
            "thorough additionally checks all 2^32 payloads × 5 constructors on the implementation against the theorems' conclusion. "
            "Distinct = distinct transcripts; every case is non-trivial (it constructs and reads back a value).",
    "trusted_base": [
        "Generated/CompactLength.lean is produced by /verif/extract (syn-based translator, my code) from the 64-bit arm of "
        "src/style/compact_length.rs under the default feature set; f32 values are modelled as their bit patterns "
        "(f32_to_bits / f32_from_bits are transmutes)",
        "typed wrappers and resolvers (dimension.rs, grid.rs Min/MaxTrackSizingFunction, resolve.rs) are hand-written in "
        "Model/Lengths.lean with f32 multiplication and the calc resolver as parameters; tied by the correspondence run",
    ],
    "assumptions": ["32-bit targets use a different cfg arm of CompactLengthInner that is not translated",
                    "serde (de)serialisation is not modelled"],
    "level_text": "For every 32-bit payload and every numeric constructor: tag and value round-trip bit-identically; tags are pairwise "
                  "distinct, fit the low byte and have a non-zero low-3-bit field; every non-null 8-aligned pointer is stored losslessly "
                  "as calc and its low byte equals none of the other tags; predicates agree with the constructor; resolution returns the "
                  "built value / basis·fraction / None / 0 as specified. Theorems are about definitions regenerated from the Rust source "
                  "on every run, so they are re-checked against what the code says now; wrappers are tied by bit-exact correspondence.",
    "level_note": "Trusted: Lean kernel; my Rust→Lean translator for the bit-manipulation fragment (cross-checked by running the "
                  "generated definitions against the implementation); hand-written wrapper/resolver model. Axioms: propext, "
                  "Classical.choice, Quot.sound (kernel-only proofs; no bv_decide, no native_decide).",
    "technique": "Lean 4 theorems over BitVec 64 definitions translated from the Rust source on every run + differential correspondence",
}

PROPS["C15"] = {
    "modules": ["TaffyVerif.Props.C15", "TaffyVerif.Props.C15Pass", "TaffyVerif.Props.C15Link", "TaffyVerif.Props.C02", "TaffyVerif.Props.C15Eval",
                "TaffyVerif.Props.C15Refine", "TaffyVerif.Props.C15Mut"],
    "theorems": [
        "C15.facts", "Dirty.markDirty_spec", "C15.step_preserves_K", "C15.K_reachable", "C15.I_reachable",
        "C15.mutation_dirties_exactly", "C15.ancestors_dirty", "C15.already_dirty_noop",
        "C15Pass.visit_good", "C15Pass.pass_cleans", "C15Pass.Clean_not_dirty", "C15Pass.hit_is_identity",
        "C02.hit_until_displaced_final", "C02.flag_agrees",
        # second pass on the tree-level evaluator with the real cache (Props/C15Eval.lean)
        "C15Eval.root_key_deterministic", "C15Eval.root_pass_logs_root_key", "C15Eval.second_pass_hits",
        "C15Eval.second_pass_hits_plain", "C15Eval.second_pass_root_hit", "C15Eval.repeated_passes",
        "C15Eval.second_pass_reevaluates_root", "C15Eval.hidden_root_pass", "C15Eval.real_dispatch_none",
        "C15Eval.computeLayout_is_round_step", "C15Eval.second_compute_layout", "C15Eval.selfCompatible_rat",
        "C15Eval.second_pass_hits_rat", "C15Eval.second_pass_no_measure_all_trees",
        "C15Eval.second_pass_identity_all_trees", "C15Eval.second_compute_layout_all_trees",
        "C15Eval.hidden_root_second_pass_rat", "C15Eval.driver_layoutRoot_eq", "C15Eval.exG_first_pass_counts",
        "C15Eval.realCache_get_store", "C15Eval.eval_hit", "C15Eval.eval_then_get", "C15Eval.eval_twice",
        "C15Eval.computeRootLayout_twice", "C15Eval.computeLayoutWithMeasure_twice",
        # flat <-> rose-tree link (Props/C15Link.lean)
        "Dirty.step_preserves_Struct", "C15Link.struct_reachable", "C15Link.subtree_finite", "C15Link.subtree_is_rose_tree",
        "C15Link.KT_unfold", "C15Link.pass_cleans_flat", "C15Link.pass_cleans_of_inv", "C15Link.passFlat_preserves",
        "C15Link.reach_inv", "DirtyPass.pass_skel", "C15Link.passFlat_exists", "C15Link.pass_total", "C15Link.reach_pass",
        # the evaluator's real pass IS a resolution of the abstract pass (Props/C15Refine.lean, Lemmas/EvalDirty*.lean)
        "C15Refine.realObs", "C15Refine.memoObs", "EvalDirty.runProg_ref", "EvalDirty.eval_ref",
        "C15Refine.eval_refines_visit", "C15Refine.eval_refines_visit_flags", "C15Refine.eval_root_pass_refines",
        "C15Refine.eval_pass_preserves_K", "C15Refine.eval_pass_cleans", "C15Refine.eval_passes_K", "C15Refine.KTns_init",
        "EvalDirty.block_calm", "EvalDirty.flex_calm", "EvalDirty.grid_calm", "EvalDirty.gridCov_calm",
        "C15Refine.block_Calm", "C15Refine.flex_Calm", "C15Refine.grid_Calm", "C15Refine.algs_Calm_all",
        "C15Refine.algsCovG_Calm", "C15Refine.selHidden_real",
        "C15Refine.eval_refines_visit_all_trees", "C15Refine.eval_root_pass_refines_all_trees",
        "C15Refine.eval_pass_preserves_K_all_trees", "C15Refine.eval_pass_cleans_all_trees",
        "C15Refine.eval_passes_K_all_trees", "C15Refine.ex3_pass_is_stream",
        "C15Refine.old_recompute_rigid", "C15Refine.ex4_flags", "C15Refine.old_recompute_too_rigid",
        # the mutators on the evaluator's caches: mark_dirty with its early exit (Props/C15Mut.lean, Lemmas/EvalDirtyEdit*.lean)
        "C15Mut.realDObs", "C15Mut.memoDObs", "C15Mut.real_emp_is_alreadyEmpty", "C15Mut.real_emp_is_isEmpty",
        "C15Mut.absFT_realDObs", "C15Mut.OK_realDObs",
        "EvalDirtyEdit.abs_markDirtyGo", "EvalDirtyEdit.go_OK_shape", "EvalDirtyEdit.go_eq_clearPath",
        "EvalDirtyEdit.go_partial", "EvalDirtyEdit.go_restores", "EvalDirtyEdit.PathK_of_AB", "EvalDirtyEdit.Bx_of_B",
        "C15Mut.markDirty_abs", "C15Mut.markDirty_rose_abs", "C15Mut.markDirty_rose_OK_shape",
        "C15Mut.markDirtyFT_restores_KT", "C15Mut.markDirtyFT_preserves_KT", "C15Mut.markDirty_rose_preserves_K",
        "C15Mut.markDirty_eq_clear_path_of_K", "C15Mut.markDirty_rose_eq_clear_path_of_K", "C15Mut.clearPath_is_Edit_setStyle",
        "C15Mut.markDirty_rose_clear_path_partial", "C15Mut.markDirty_not_clear_path_under_hidden",
        "C15Mut.rootPass_refines", "C15Mut.rootPass_K",
        # flat Dirty.markDirty = markDirtyFT on the unfolding (Lemmas/EvalDirtyEditFlat.lean)
        "C15Link.no_cycle", "C15Link.siblings_disjoint", "C15Link.unf_congr", "C15Link.flat_go",
        "C15Mut.markDirty_flat_is_markDirtyFT", "C15Mut.markDirty_rose_is_flat",
        # … and the whole chain for set_style / mark_dirty / passes: evaluator state <-> flat model along every history
        "C15Link.flat_setHidden", "EvalDirtyEdit.abs_setHid", "C15Mut.flat_setStyle_eq", "C15Mut.markDirty_is_flat",
        "C15Mut.style_is_flat", "C15Mut.pass_is_flat", "C15Mut.history_is_flat", "C15Mut.exT_corr",
        # histories of mutators and passes on the evaluator's state (Lemmas/EvalDirtyEditHist.lean)
        "EvalDirtyEdit.abs_style_ABx", "EvalDirtyEdit.abs_replace_ABx", "EvalDirtyEdit.PathK_of_ABx",
        "EvalDirtyEdit.DirtyAt_clearPath", "EvalDirtyEdit.DirtyAt_go", "EvalDirtyEdit.DirtyAt_modifyAt", "EvalDirtyEdit.DirtyAt_init",
        "C15Mut.hstep_inv", "C15Mut.hrun_inv", "C15Mut.history_refines", "C15Mut.history_pass_cleans",
        "C15Mut.edit_dirties", "C15Mut.dirty_persists", "C15Mut.history_refines_dirty",
        # C01's Edit steps = mutator + mark_dirty (Lemmas/EvalDirtyEditMut.lean)
        "EvalDirtyEdit.stateModifyAt_clear", "EvalDirtyEdit.modify_raw", "EvalDirtyEdit.LM_style", "EvalDirtyEdit.LM_insert",
        "EvalDirtyEdit.LM_remove", "EvalDirtyEdit.LM_replaceChild",
        "C15Mut.markTarget_facts", "C15Mut.local_inv", "C15Mut.mutApply_preserves_K",
        "C15Mut.markDirty_establishes_Edit", "C15Mut.markDirty_establishes_Edit_real",
        "C15Mut.eval_PL_inv", "C15Mut.mut_history_eq", "C15Mut.history_independent_outputs_exact_mut",
        "C15Mut.history_independent_outputs_exact_mut_real", "C15Mut.runHistoryMut_agree",
        "C15Mut.history_independent_outputs_exact_mut_all_trees",
        "C15Mut.ex5_trees", "C15Mut.hist5_calm", "C15Mut.ex5_flags",
    ],
    "harness": "C15", "driver": "C15", "monitor": False, "extra_ties": [("EVAL", "EVAL")], "extra_tie_cases": 4000,
    "rule": "random histories (4–33 ops) of every TaffyTree mutator (new_leaf[_with_context], set_style incl. display:none "
            "toggles, set_node_context, add/insert/replace child, remove_child_at_index, remove_children_range, set_children "
            "with reparenting, remove, mark_dirty) and layout passes from parentless nodes with two available spaces, half of the "
            "passes repeating the previous one; after every op the dirty flag of every node is compared with the model. "
            "Non-trivial = the history contains an attach, a reparenting, a removal or a pass; distinct = distinct transcripts.",
    "trusted_base": [
        "which mutator calls mark_dirty on which node is extracted from src/tree/taffy_tree.rs on every run "
        "(Generated/Facts.lean, my syn-based extractor); theorem C15.facts pins the values the proofs rely on",
        "flat model Model/Dirty.lean (mutators) and rose-tree model Model/DirtyPass.lean (passes, all hit/miss and "
        "child-visit decisions universally quantified) are hand-written; the flat model is tied to TaffyTree by comparing every "
        "node's dirty flag after every operation; the link flat ↔ rose tree is proved in Props/C15Link.lean: under the structural invariant Dirty.Struct "
        "(preserved by every mutator under the property's precondition) the subtree of a parentless node is a finite rose tree, "
        "K gives KT on it, a pass can be written back (PassFlat exists) and preserves K and Struct, so pass_cleans applies after "
        "every history of mutators interleaved with passes (C15Link.reach_inv)",
        "what the rose-tree pass assumes about the three container algorithms — a PerformLayout-mode evaluation performs a "
        "PerformLayout query on every child, and display:none children are never measured — is PROVED of the block, flexbox and "
        "grid programs (EvalMemo.PLCovers: block_PLCovers / flex_PLCovers / grid_PLCovers_partial on runs that do not panic; "
        "C15Refine.block_Calm / flex_Calm / grid_Calm), and the evaluator's pass over the real cache model is proved to be one "
        "of the resolutions of the rose-tree pass (C15Refine.eval_root_pass_refines_all_trees, every style tree whose grid "
        "containers cannot panic: GridCalm); Model/DirtyPass.lean's recompute was made self-delimiting for this (a closing "
        "`done`): with the former definition the statement is false (C15Refine.old_recompute_too_rigid)",
        "the MUTATORS are linked too (Props/C15Mut.lean): TaffyTree::mark_dirty with its AlreadyEmpty early exit is modelled on the "
        "evaluator's real caches (markDirty_rose; the test is the is_empty field, strict cache invariant RealOKS), commutes with the "
        "abstraction absFT (markDirty_rose_abs), and the flat model's Dirty.markDirty (parent pointers, fuel) is proved to be the same "
        "function on the unfolding (markDirty_flat_is_markDirtyFT, markDirty_rose_is_flat): along every history of set_style / "
        "mark_dirty / root passes the evaluator's flags ARE the flat model's flags (history_is_flat); under the invariant and with no "
        "display:none proper ancestor the early exit equals clearing the whole ancestor path (markDirty_rose_eq_clear_path_of_K), "
        "otherwise the caches of the display:none ancestor and above survive (markDirty_rose_clear_path_partial, witness "
        "markDirty_not_clear_path_under_hidden = known finding c01-attach-under-clean-hidden); history_refines / history_refines_dirty / "
        "history_pass_cleans: invariants, dirtiness of edited nodes and their ancestors between passes, cleanliness after a pass, for "
        "every history of set_style / replace-child / mark_dirty / passes over GridCalm trees",
    ],
    "assumptions": ["mark_dirty's recursion is modelled with fuel (next+1); running out of fuel is an explicit outcome, "
                    "never observed; in a forest it cannot happen"],
    "undischarged": ["second pass: proved on the tree-level evaluator with the real cache model for every tree, state, dispatch "
                     "and algorithms (C15Eval.second_pass_no_measure_all_trees at Rat, unconditional; C15Eval.second_pass_hits for "
                     "every Num instance under C02's self-compatibility of the root key, which is the exact condition: "
                     "C15Eval.second_pass_reevaluates_root). At f32 the condition fails for a NaN / infinite available space or a "
                     "NaN known dimension: AvailableSpace::Definite(f32::INFINITY) makes every pass call the root's measure "
                     "function again (model #eval and real code agree; outside the property's finite inputs). The link between the "
                     "rose-tree pass (Model/DirtyPass.lean) and the evaluator's caches is proved for passes "
                     "(C15Refine.eval_pass_cleans_all_trees, eval_pass_preserves_K_all_trees, eval_passes_K_all_trees: any sequence "
                     "of root passes from a freshly built tree); what is not proved: the same link for the MUTATORS (the flat "
                     "model's mark_dirty against clearing the evaluator's caches along the ancestor chain; EvalMemo.Edit models "
                     "the edits on the evaluator side), and grid containers that panic (GridCalm excludes them)"],
    "level_text": "Theorems: every mutator (with the mark_dirty call extracted from the source) preserves the invariant K, which "
                  "implies that a dirty node's parent is dirty or display:none — the fact that makes mark_dirty's early exit "
                  "sound — for every history; mark_dirty dirties the target and all ancestors up to the first display:none one, "
                  "only ever clears flags, touches nothing outside the ancestor chain and is a no-op on a dirty target; every "
                  "resolution of a layout pass (all hit/miss decisions, any number and order of child measurements) preserves the "
                  "invariant and leaves every node reachable without crossing display:none clean; a hit at the root visits nothing.",
    "level_note": "Trusted: Lean kernel; extractor for the mark_dirty table; hand-written models tied by flag-for-flag "
                  "correspondence on generated histories. Axioms: propext, Classical.choice, Quot.sound.",
    "technique": "Lean 4 invariant proofs (induction over mutator histories; induction over pass fuel for all choice streams) "
                 "+ extracted mark_dirty table + differential correspondence of dirty flags",
}

PROPS["C13"] = {
    "modules": ["TaffyVerif.Props.C13"],
    "theorems": [
        "C13.rounded_integral", "C13.rounded_integral_all", "C13.size_within_one", "C13.size_bound_attained",
        "C13.unrounded_untouched", "C13.synced_after_enabled_pass", "C13.synced_after_first_pass", "C13.layout_of_synced",
        "C13.rounding_idempotent", "C13.stale_until_next_pass",
        "C13.edge_commutes", "C13.edge_commutes_nonneg", "C13.no_seam",
        "C13.half_pixel_exclusion_necessary", "C13.integral_ancestors_necessary",
        "C13.every_node_has_a_path",
    ],
    "harness": "C13", "driver": "C13", "monitor": True,
    "rule": "real TaffyTrees of 1-12 nodes, depth <= 4, display flex/block/grid mixed, sizes/padding/border/margin/gap/inset from "
            "dyadic pools (k/8, half pixels, negative offsets), integer pools, percentages, and a non-dyadic pool (0.49, 1.51, 0.1, 33.3, "
            "2.4999, 0.5001; 10%, 33.3%, 90%); available space definite/min-/max-content; laid out by compute_layout. Request = every node's unrounded_layout, "
            "answer = every node's layout() (all 21 Layout fields, bit-exact, no -0.0 canonicalisation). Half of the cases continue "
            "with a history of repeated passes (same or different available space), mark_dirty, enable_rounding/disable_rounding, "
            "layout()/unrounded_layout() reads. Implementation-side oracle: a twin tree on which rounding never runs receives the same "
            "passes; its layout must be bit-identical to the unrounded layout (rounding feeds nothing back); the same unrounded layout is "
            "always rounded to the same result; toggles leave unrounded_layout untouched. Fixed witnesses first, each with the Lean witness theorem's "
            "statement asserted on the implementation (bound 1 attained, half-pixel seam, fractional ancestor, an f32-only case where "
            "cumulative + location rounds onto a half pixel, enable without a pass). Non-trivial = a rounded pass over a tree with a non-zero "
            "layout; distinct = distinct transcripts.",
    "trusted_base": [
        "model of round_layout / round_layout_inner / round_content_size (src/compute/mod.rs, default features) and of the "
        "rounding-related state of TaffyTree (use_rounding, unrounded_layout, final_layout, layout(), enable/disable_rounding, "
        "compute_layout_with_measure) is hand-written (Model/Round.lean); tied to the code by bit-exact comparison of whole trees",
        "the layout pass is an oracle in the state machine (Op.compute u): that compute_root_layout writes unrounded_layout only "
        "through set_unrounded_layout and never touches final_layout is read off taffy_tree.rs and checked by the twin-tree oracle",
        "theorems are over exact rationals; Lean Float32 +,-,round are assumed to be IEEE binary32 / C roundf as Rust's f32",
    ],
    "assumptions": [
        "f32: cumulative + extent is itself rounded to f32, so on the implementation edge_commutes is evaluated exactly when every "
        "number of the tree is a small dyadic (|v| < 4096, <= 10 fractional bits: all additions exact) and otherwise with a relative "
        "tolerance of 2^-18 on the edge, applied to the conclusion and to the half-pixel hypothesis alike (a near edge within the "
        "tolerance of a half pixel counts as on it: witness fixed:f32-near-edge-rounds-onto-half-pixel)",
        "repeated passes are compared for equal unrounded layouts; determinism of the layout pass itself is C01's subject",
    ],
    "level_text": "For every tree of unrounded layouts (any shape, depth, values) round_layout produces integral location, size, "
                  "content size, scrollbar size, border and padding; each extent within one pixel of the unrounded one (bound attained "
                  "at x = -1/2, width 1), location/scrollbar within half a pixel; order and margin copied. The unrounded layout is never "
                  "written by rounding or toggles; after any history of identical passes and toggles layout() is the unrounded tree or "
                  "its rounding according to the flag. Under integral ancestors and a near edge off the half pixels, absolute rounded "
                  "near and far edges equal round(absolute unrounded edge), hence touching boxes keep touching; both hypotheses are "
                  "shown necessary by witnesses replayed on the implementation; for non-negative coordinates the half-pixel exclusion is "
                  "proved unnecessary.",
    "level_note": "Trusted: Lean kernel; hand-written model (validated by the bit-exact correspondence run at Float32); no theorem "
                  "relates Float32 to Rat arithmetic. Caveat recorded as a theorem: enable_rounding() does not round, so layout() is "
                  "stale until the next pass (stale_until_next_pass). Axioms: propext, Classical.choice, Quot.sound.",
    "technique": "Lean 4 proofs over exact rationals about a transliterated round_layout + differential correspondence on real TaffyTrees",
}

PROPS["C14"] = {
    "modules": ["TaffyVerif.Props.C14", "TaffyVerif.Props.C14Sim"],
    "theorems": [
        "C14.step_inv", "C14.inv_runH", "C14.no_panic", "C14.lock_step", "C14.parent_agrees", "C14.occurs_once",
        "C14.insert_position", "C14.add_child_position", "C14.observers_agree", "C14.total_node_count_eq_live",
        "C14.remove_effect", "C14.index_error_unchanged", "C14.index_error_iff", "C14.set_children_effect",
        "C14.new_leaf_effect", "C14.created_id_never_seen_before", "C14.spec_observers", "C14.cycle_reachable",
        "SlotMapModel.insert_spec", "SlotMapModel.remove_spec", "SlotMapModel.clear_spec", "SlotMapModel.insert_lockstep",
        "SlotMapModel.WF.len_eq", "TreeModel.err_unchanged", "TreeModel.setChildren_ok", "TreeModel.remove_ok",
        "Fresh.step_verStep", "Fresh.seen",
        # one simulation theorem to the forest spec (Props/C14Sim.lean)
        "C14Sim.sim_iff_equiv_abs", "C14Sim.specPre_iff_pre", "C14Sim.step_sim", "C14Sim.step_simulates",
        "C14Sim.step_simulates_abs", "C14Sim.spec_err_unchanged", "C14Sim.history_simulates", "C14Sim.specValid_iff_valid",
        "C14Sim.history_answers", "C14Sim.history_observers", "C14Sim.history_wf", "C14Sim.attached_exactly_once",
        "C14Sim.insert_position", "C14Sim.add_child_position", "C14Sim.set_children_installs", "C14Sim.remove_effect",
        "C14Sim.removed_id_never_reissued", "C14Sim.replace_child_position", "C14Sim.new_with_children_installs",
        "C14Sim.specValid_of_short", "C14Sim.history_simulates_short", "C14Cap.step_lenStep", "C14Cap.slots_le_length",
    ],
    "harness": "C14", "driver": "C14", "monitor": True,
    "rule": "random edit histories (4-40 ops) on the real TaffyTree<u32> over a pool of <= 12 live nodes; every op is followed by a "
            "full dump (children/parent/child_count/child_at_index for every index 0..=len/get_node_context of every live node, "
            "total_node_count, and the same observers on every removed id). Indices are boundary-heavy (0, len-1, len, len+1, "
            "beyond), ranges include empty and whole-list ranges, a third of the cases churn remove/create to force slot reuse, "
            "clear is included. Streams: main (precondition-respecting; also monitored against the reference spec and checked by an "
            "implementation-side consistency oracle), malformed (double attachment, duplicates in set_children/new_with_children, "
            "dead ids, non-children: the model must predict the exact state or the panic), badrange (ends with an out-of-range "
            "remove_children_range: both sides must panic; known C03 finding), torn (fixed cases that go on after a panic: the model's torn state is compared with the real tree's). Non-trivial = at least 3 edits; distinct = distinct "
            "transcripts.",
    "trusted_base": [
        "models of slotmap 1.1.x (basic.rs SlotMap insert/remove/get/clear, secondary.rs insert/remove/get) and of the structural "
        "methods of src/tree/taffy_tree.rs are hand-written (Model/SlotMap.lean, Model/Tree.lean); tied to the code by exact "
        "comparison of every returned id (idx.version), every answer and a full observable dump after every operation",
        "reference spec Model/Forest.lean is what the property monitor runs beside the implementation",
        "NodeData is reduced to has_context; mark_dirty is modelled by its panic site only (no layout is ever computed in these "
        "histories, so every cache is empty and the recursion to ancestors never starts)",
    ],
    "assumptions": [
        "ids passed to the API are ids the tree handed out (NodeId -> key conversion forces the version odd; identity on those)",
        "fewer than 2^32-1 slots (SlotMap is full panic is a `panic` outcome in the model and excluded by the precondition)",
        "remove_children_range out of range panics (known finding of C03) and is excluded by the precondition",
        "the precondition of the statement admits parent cycles (add_child(a,b); add_child(b,a)); acyclicity is therefore not claimed "
        "(theorem cycle_reachable)",
    ],
    "level_text": "For every finite history of structural TaffyTree operations that respects the stated precondition, starting from "
                  "TaffyTree::new(): the three slot maps stay well-formed and in lock-step (identical key sets, identical ids handed "
                  "out), every child list mentions only live nodes and none twice, parent(c) = Some(p) exactly when c is in "
                  "children(p) (so each node occurs at most once over all lists), and no operation panics (induction over the "
                  "history). Corollaries: position of an inserted/appended child, child_count/child_at_index/children agree, "
                  "total_node_count = number of live keys, a removed node is gone from all maps and lists and its children become "
                  "roots, set_children installs the list and reparents, every index error is reported exactly when out of bounds and "
                  "leaves the tree unchanged (for every state, no precondition), an id returned by a creating operation was never live "
                  "earlier in the history (any history shorter than 2^32-1 ops, valid or not), and every observer answers what the "
                  "reference forest abs(t) answers. The model is tied to the code by exact comparison on "
                  "generated histories including malformed ones.",
    "level_note": "Trusted: Lean kernel; hand-written models of slotmap and of taffy_tree.rs (validated by the correspondence run, ids "
                  "and dumps compared exactly). Not proved: acyclicity (false under the stated precondition, witness proved). "
                  "Simulation to the reference forest (Props/C14Sim): C14Sim.step_simulates (all 19 ops: invariant, no panic, "
                  "abs(step t op) = specStep(abs t, op) up to the order of the live list, equal answers, index errors leave both "
                  "states unchanged, created id not live in the spec) and C14Sim.history_simulates / history_observers (induction "
                  "over any history; the spec-side precondition specPre is proved equivalent to C14.Pre). get_node_context's "
                  "answer is outside the structural spec (contexts are not modelled in Forest). "
                  "Axioms: propext, Classical.choice, Quot.sound.",
    "technique": "Lean 4 invariant proof by induction over operation histories on a line-by-line model of slotmap + TaffyTree, "
                 "differential correspondence with the real TaffyTree, reference-spec monitor",
}

PROPS["C03"] = {
    # obligations are merged from the per-area modules as they are integrated (grid placement, flex freeze loop,
    # fr / distribution loops, index-checked accessors)
    "modules": ["TaffyVerif.Props.C14", "TaffyVerif.Props.C03Grid", "TaffyVerif.Props.C03GridTotal", "TaffyVerif.Props.C03Flex",
                "TaffyVerif.Props.C03Tracks"],
    "theorems": ["C14.index_error_unchanged", "C14.index_error_iff", "C14.no_panic",
                 "C03Grid.search_secondary_terminates", "C03Grid.search_fixed_primary_terminates",
                 "C03Grid.search_both_terminates", "C03Grid.fuel_suffices",
                 "C03Grid.estimate_covers_definite", "C03Grid.mark_area_never_panics", "C03Grid.matrix_wellformed_invariant",
                 "C03Grid.placement_total", "C03Grid.placement_total_counts", "C03Grid.placement_never_fails",
                 "C03Grid.placement_total_correct", "C03Grid.placement_total_example", "C03Grid.mark_area_total",
                 "C03Grid.area_beyond_grid_is_free", "C03Grid.estimate_covers_spans",
                 "C03Flex.iteration_freezes_one", "C03Flex.iteration_freezes_all_when_zero", "C03Flex.freeze_loop_terminates",
                 "C03Tracks.fr_loop_terminates", "C03Tracks.fr_iterates_decrease", "C03Tracks.fr_restart_progress",
                 "C03Tracks.fr_divisor_positive", "C03Tracks.auto_repeat_zero_size_total", "C03Tracks.auto_repeat_divisor_positive",
                 "C03Tracks.initialize_total", "C03Tracks.alignment_divisors_positive", "C03Tracks.distribute_progress",
                 "C03Tracks.distribute_terminates", "C03Tracks.maximise_params_wf"],
    "harness": "C03", "driver": "C03", "monitor": False, "also_debug": True, "debug_cases": 1500,
    "rule": "supervised worker processes (ulimit -v 4 GB, 10 s per-case timeout) lay out generated trees from the property's "
            "bounded domain (all displays, signed margins/insets, grid lines −6…6 incl. 0, spans 0…4, repeat()/auto-fill/auto-fit "
            "tracks, min/max-content and definite available space, rounding on and off) in a release and in a debug build "
            "(overflow checks); exit status, panic payload, hangs, peak RSS and non-finite outputs are observed; plus every "
            "index-checked accessor/mutator with out-of-range indices. Non-trivial = tree with ≥ 3 nodes; distinct = distinct transcripts.",
    "trusted_base": [
        "totality is a list of obligations about modelled loops and partial operations (see theorem list); code paths that are "
        "not modelled are sampled by the supervised worker only — that part is a search, not a proof",
    ],
    "assumptions": ["'moderately sized' = |line| ≤ 6, span ≤ 4, lengths ≤ 400, ≤ 16 nodes in the sampled domain"],
    "undischarged": ["finiteness of every number (Props/C03Finite*.lean, models at the extended numbers ER): proved for the leaf, the root driver, "
                     "the block and flex programs and the evaluator over them (every tree without grid containers, any number of passes), under "
                     "the hypothesis that no aspect ratio is 0 — which is exact: C03Finite.leaf_ratio_zero_not_finite / "
                     "block_ratio_zero_inf_and_nan exhibit inf and NaN in Layouts for aspect_ratio Some(0.0), replayed on the real code "
                     "(notes/witness/c03_aspect_ratio_zero.rs); the grid program's finiteness and float-induced hangs beyond the proved loop "
                     "terminations: sampled only; overflow of finite f32 arithmetic is outside the model",
                     ],
    # grid placement_total is proved (Props/C03GridTotal.lean): for explicit counts 0..B, |line| <= B, span <= B, <= N children with
    # (N+5)*(B+2) <= 16000 (e.g. B = N = 100) run returns ok: no panic, no overflow, no outOfFuel
    "level_text": "Proved: index-checked tree accessors/mutators return Err and never panic for every index and leave the state "
                  "unchanged (C14 model); grid placement is total (no panic, no integer overflow, no fuel exhaustion) for explicit "
                  "counts, lines and spans <= B and <= N children with (N+5)(B+2) <= 16000 (C03Grid.placement_total); the WHOLE grid "
                  "program (Model/Grid.lean, every panic of the Rust an explicit outcome) cannot panic whenever the decidable "
                  "precondition gridSafeB holds (EvalGrid.grid_noPanic_of_gridSafeB: no auto-repeat, item track indexes inside the track "
                  "vectors, track vectors with one entry per line and track, no i16 overflow when an absolutely positioned child's lines "
                  "are resolved; that those lines lie inside the track vectors is no longer a condition: try_into_track_vec_index answers "
                  "None outside the implicit grid, EvalGrid.absTrackIndexes_in); the flex freeze loop, the fr loops and the distribution loop terminate; "
                  "zero-size auto-repeat is total. Observed, not proved: no panic, hang, blow-up or non-finite output of the real code "
                  "on the sampled bounded domain in release and debug builds.",
    "level_note": "partial: totality of unmodelled code is sampled by a supervised worker process. Known finding: "
                  "remove_children_range panics on an out-of-range range (documented behaviour).",
    "technique": "Lean 4 termination/no-panic theorems for the modelled loops and accessors + supervised out-of-process sampling",
}

_C08_RULE = (
    "placement problems = (explicit column/row counts 0..3, one of the four grid-auto-flow modes, 0..6 children, each with "
    "grid-row/grid-column start/end drawn from auto | line -6..6 (0 included) | span 0..4, tokens shared between children so "
    "that items collide, a third of the children forced fully automatic or definite in exactly one axis); a second stream "
    "with up to 12 children, lines up to +-40, spans up to 9, up to 6 explicit tracks; 60 fixed cases first (the four "
    "witnesses of the repaired defects 2-5 under every flow, swapped/equal lines, sparse vs dense cursor, childless grids). "
    "Every problem is run twice: through the cfg(taffy_verif) hook verif_place_grid_items (areas in origin-zero lines, record "
    "order, final track counts) and as a whole TaffyTree layout observed through detailed_layout_info (1-based areas, sorted); "
    "both answers are compared with the Lean model, and the hook is cross-checked against the layout inside the harness. "
    "thorough adds every single child over a 12-token pool x 3 grids x 4 flows, every pair over a 4-token pool x 2 grids x 4 "
    "flows and every triple over a 3-token pool. Non-trivial = at least two children; distinct = distinct transcripts. "
    "The taffy crate is compiled with overflow checks on, so an integer overflow is a panic as in a debug build."
)
_C08_TRUST = [
    "Model/GridPlacement.lean is hand-written from placement.rs, implicit_grid.rs, cell_occupancy.rs, coordinates.rs, "
    "grid_track_counts.rs, style/grid.rs and the grid crate's Grid (row-major vector, bounds-checked get/get_mut, from_vec, "
    "iter_row/iter_col); tied to the code by exact comparison of item areas and final track counts on generated problems",
    "the hook verif_place_grid_items replicates the argument construction of compute_grid_layout (estimate -> "
    "CellOccupancyMatrix::with_track_counts -> place_grid_items); it is cross-checked against detailed_layout_info of a "
    "real layout on every case that has children",
    "machine integers: every i16/u16/usize operation of the Rust is a checked operation of the model (overflow outcome); "
    "lossy `as` casts are also treated as overflow (stricter than Rust, which wraps silently), so an `ok` run performed none",
]

PROPS["C08"] = {
    "modules": ["TaffyVerif.Props.C08", "TaffyVerif.Props.C08Grid"],
    "theorems": [
        "C08.area_nonempty_in_range", "C08.explicit_lines_honoured", "C08.start_line_exact", "C08.end_line_exact",
        "C08.both_lines_boundaries", "C08.auto_flag_spec", "C08.auto_items_disjoint",
        # the same for the item list of the WHOLE grid program (Model/Grid.lean), every run / every oracle
        "C08Grid.grid_items_placed_ok", "C08Grid.grid_item_areas_nonempty_in_range", "C08Grid.grid_item_lines_honoured",
        "C08Grid.grid_auto_items_disjoint",
    ],
    "harness": "C08", "driver": "C08", "monitor": True, "extra_ties": [("GRID", "GRID")], "extra_tie_cases": 1500,
    "rule": _C08_RULE,
    "trusted_base": _C08_TRUST,
    "assumptions": [
        "theorems are partial-correctness statements about a run that returns; that it returns is C03's grid obligation",
        "absolutely positioned and display:none children are not in-flow and are outside this property (the estimate still "
        "sees absolutely positioned children: known finding 10, C06)",
    ],
    "level_text": "For every grid (any explicit track counts, all four auto-flow modes) and every list of children with any "
                  "line/span/auto placements (negative lines, line 0, span 0 included), if placement returns then: every item "
                  "spans >= 1 track per axis inside the final track counts; in a definite axis its two boundaries are exactly the "
                  "ones resolve_definite_grid_lines derives from the given lines/span (a lone non-zero start/end line is exactly "
                  "that boundary; two lines are the two boundaries, swapped if reversed), in an indefinite axis it spans the "
                  "requested number of tracks; and an auto-placed item shares no cell with any other item. Proved by an invariant "
                  "over place_grid_items (every cell covered by a recorded item is marked in the occupancy matrix, also across "
                  "expand_to_fit_range; auto items are recorded only on areas found unoccupied). No bound on the number of "
                  "children. The model is tied to the code by exact comparison through two channels. WHOLE PROGRAM "
                  "(Props/C08Grid.lean, about Model/Grid.lean): on every run of compute_grid_layout (every oracle) that reaches the "
                  "state after align_tracks, the grid items handed to track sizing and positioning are the in-flow children, each "
                  "exactly once, each carrying the area that the program's place_grid_items run (on the in-flow children with their "
                  "indices, from the matrix of the size estimate over all box-generating children) recorded for it "
                  "(grid_items_placed_ok); hence every item spans >= 1 track per axis inside the reported counts, its lines are "
                  "honoured against the explicit counts, and an auto-placed item shares no cell with any other item.",
    "level_note": "Trusted: Lean kernel; hand-written model (validated by the correspondence run through the hook and through "
                  "detailed_layout_info); the hook. Axioms: propext, Classical.choice, Quot.sound.",
    "technique": "Lean 4 invariant proof over the occupancy-matrix model + differential correspondence with place_grid_items",
}

PROPS["C10"] = {
    "modules": ["TaffyVerif.Props.C10", "TaffyVerif.Props.C10Tree", "TaffyVerif.Props.C10TreeThm"],
    "theorems": [
        "C10.flowLoop_is_flowTrace", "C10.block_layout_sets_are_flowTrace", "C10.trace_layout_size",
        "C10.stack_order_no_overlap", "C10.stack_order_no_overlap_layout",
        "C10.stretch_fit_width", "C10.stretch_fit_reported_width",
        "C10.sibling_gap_is_collapsed_margin", "C10.collapsed_margin_is_max_plus_min",
        "C10.sibling_gap_through_empty_boxes", "C10.collapse_two_margins", "C10.sibling_gap_two_margins",
        "C10.block_collapse_sound", "C10.leaf_collapse_sound",
        # tree-level specification (Spec/MarginCollapse.lean, from CSS 2.1 8.3.1) tied to the model's margin algebra, its
        # one-level clauses tied to the theorems above, and non-vacuity on two concrete trees
        "C10Tree.collapsed_eq_resolve_fold", "C10Tree.collapsed_append_eq_collapseWithSet", "C10Tree.toSet_append",
        "C10Tree.collapsed_pair", "C10Tree.collapsed_nonneg",
        "C10Tree.flow_first_child", "C10Tree.flow_pair_gap",
        "C10Tree.model_sibling_gap_is_spec_gap", "C10Tree.model_gap_through_empty_boxes_is_spec_gap",
        "C10Tree.tree1_good_ok", "C10Tree.tree1_summed_rejected", "C10Tree.tree1_summed_clauses",
        "C10Tree.tree2_good_ok", "C10Tree.tree2_summed_rejected", "C10Tree.tree2_summed_clauses",
        # tree-level THEOREM (Props/C10TreeThm.lean): for every tree of the family the layouts of the model (block.rs + leaf.rs
        # models composed by the cache-free evaluator, root under any available space) satisfy Spec/MarginCollapse.lean
        "C10Thm.block_output_meets_spec", "C10Thm.block_positions_meet_spec", "C10Thm.block_subtree_meets_spec",
        "C10Thm.block_trees_meet_margin_spec_core", "C10Thm.block_trees_meet_margin_spec",
        "C10Thm.oracle_hypotheses_hold_for_evaluator",
        "C10Thm.exTree_inFamily", "C10Thm.exTree_layouts", "C10Thm.negative_padding_witness",
        # supporting lemmas audited by name
        "C10Thm.build_specOf", "C10Thm.walk_final", "C10Thm.walk_flow", "C10Thm.block_output_meets", "C10Thm.leaf_meets",
        "C10Thm.out_meets", "C10Thm.out_wide", "C10Thm.run_block_PL", "C10Thm.evalOK", "C10Thm.container_flow",
        "C10Thm.runPure_block_sets",
    ],
    "harness": "C10", "driver": "C10", "monitor": True, "extra_ties": [("EVAL", "EVAL")], "extra_tie_cases": 4000,
    "rule": "block containers with 1-5 children (empty boxes, leaves with Fixed/Wrap measure contexts, nested block / flex / grid "
            "subtrees, display:none and absolutely positioned children; margins from {-20,-8,-5,0,2.5,5,10,20,auto,+-12.5%,25%}, "
            "fixed / percentage / content heights, percentage and fixed padding/border, overflow, text-align, relative insets, "
            "tables, aspect ratio, content-box), laid out through TaffyTree as the root or one level down in a block / flex / grid "
            "parent under generated available space. Every cache-missing invocation of compute_block_layout on the container is "
            "one request: its LayoutInput, all child queries it made (input and output, in order; recorded by the verif_trace hook), "
            "the layouts it set and its LayoutOutput. The model must make the same queries in the same order and produce the same "
            "output and layouts bit for bit (-0.0 = +0.0). Fixed cases first: the witnesses of the three repaired defects "
            "(db358c3, a404d9d, 0961b7f) and all sign combinations with empty boxes in between. "
            "Non-trivial = the invocation set at least two child layouts; distinct = distinct request/answer transcripts. "
            "Tree-level stream (harness/src/c10tree.rs, case indices from 1000000; histogram keys tree:*): whole trees of nested "
            "display:block containers (depth <= 4, <= 4 children per node; leaves empty or with a fixed-size measure function, height "
            "0 included; margins from {-20,-10,-8,-5,-2.5,0,2.5,5,7.5,10,12.5,15,20,30}; padding / border per side; height auto or "
            "a length, min-height on childless boxes; some definite widths; display:none and absolute children sprinkled in), placed "
            "as a root with definite width, a root under max-/min-content, or the only item of a flex row / grid container; laid out "
            "by a fresh TaffyTree without rounding; one request per tree carrying the tree and every node's unrounded layout. The "
            "monitor pass evaluates MarginCollapse.violations (Spec/MarginCollapse.lean: adjoining top / bottom margin sets by "
            "recursion over the tree, collapsed value = max positive + min negative, clauses first-child, sibling-gap, through-pos, "
            "through-height, stretch) on those layouts with exact rational arithmetic; any `bad c10-tree-<clause> node k` is a "
            "concrete failing tree. Excluded where CSS 2.1 8.3.1 is not unequivocal: min-height > 0 on a box with in-flow children; "
            "height:0 around in-flow children that all collapse through.",
    "trusted_base": [
        "model of src/compute/block.rs is hand-written (Model/Block.lean, all of compute_block_layout / compute_inner including the "
        "absolute and hidden passes); tied to the code by bit-exact comparison of every recorded invocation, with the child answers "
        "replayed from the implementation's own trace (children are arbitrary real subtrees)",
        "the cfg(taffy_verif) trace hook (src/verif_trace.rs + 4 add-only call sites in compute_cached_layout, "
        "TaffyView::compute_child_layout and TaffyView::set_unrounded_layout) records faithfully",
        "theorems are stated at Rat; the same definitions run at Float32 in the tie; no theorem relates f32 rounding to Rat",
        "tree-level stream: Spec/MarginCollapse.lean is a hand-written reading of CSS 2.1 8.3.1 (independent of Model/Block.lean; "
        "tied to it only by the C10Tree.* theorems about the collapsed value and the one-level clauses); the driver's conversion of "
        "style tokens and f32 layouts to the specification's boxes (Drv/C10Tree.lean) is trusted; a measured content height of 0 is "
        "read as 'contains no line box'",
        "tree-level theorem (C10Thm.*): about the Rat instance of the models of block.rs / leaf.rs / compute_root_layout composed by "
        "the CACHE-FREE evaluator (Eval.noCache) with TaffyTree's extracted dispatch; the real nine-slot cache is covered by the "
        "monitor on the implementation's layouts and by the EVAL tie, not by this theorem; the conversion it uses is the driver's "
        "boxOf / build restated over the number type (Lemmas/C10TreeConv.lean, same text, toRat := some)",
    ],
    "assumptions": [
        "children are universally quantified as oracles (any answers); properties of the children's own algorithms are only "
        "used as the named hypothesis CollapseSound, which is proved for the block algorithm itself and for leaf.rs's flag expression",
        "leaf.rs is represented only by its collapse-through flag expression (leafCollapseFlag); flex and grid never set the flag",
        "calc() lengths are not modelled (TaffyTree resolves them to 0; never generated)",
        "tree-level theorem: family = the driver's family check restricted to display block / none at every node (flex / grid "
        "wrapper roots, placements in-flex / in-grid, are not covered) and to non-negative vertical padding, vertical border "
        "widths, height, min-height and content height (CSS requires it; the driver does not check it; with padding-top < 0 the "
        "statement is false of model and code alike: C10Thm.negative_padding_witness, replayed on TaffyTree)",
    ],
    "level_text": "For every block container, every list of child styles and every possible answer of the children (any oracle): "
                  "running the in-flow loop program is its pure unfolding flowTrace (flowLoop_is_flowTrace); adjacent in-flow children "
                  "with non-negative adjoining margins that are collapse-sound satisfy y_b >= y_a + h_a (stack_order_no_overlap); an "
                  "auto-width child without min/max width, aspect ratio and auto margins is asked to be exactly content-box width minus "
                  "its horizontal margins wide and, honouring that, fills the content box (stretch_fit_width, stretch_fit_reported_width); "
                  "the gap between two siblings that are not collapsed through equals most-positive + most-negative over all adjoining "
                  "margins, also through any number of collapsed-through boxes in between (sibling_gap_is_collapsed_margin, "
                  "sibling_gap_through_empty_boxes), which for two plain margins is max / min / sum by sign (sibling_gap_two_margins); the "
                  "block algorithm and the leaf flag are collapse-sound for every input (block_collapse_sound, leaf_collapse_sound). "
                  "Tree level: the specification's collapsed value of a list of adjoining margins is MarginSet.resolve of the list "
                  "folded in with collapse_with_margin, and list union is collapse_with_set (C10Tree.collapsed_eq_resolve_fold, "
                  "collapsed_append_eq_collapseWithSet); its first-child and sibling-gap clauses say what they should "
                  "(flow_first_child, flow_pair_gap) and the model of block.rs satisfies the sibling clause whenever its margin sets are "
                  "the folds of the specification's adjoining lists (model_sibling_gap_is_spec_gap, "
                  "model_gap_through_empty_boxes_is_spec_gap); the specification accepts the CSS layouts of two concrete trees and "
                  "rejects the layouts with summed margins (tree1_*, tree2_*). Whole trees, theorem (C10Thm.*): for EVERY tree of the family "
                  "(nested display:block containers and childless boxes with fixed-size content, px margins of any sign, px padding / "
                  "borders (non-negative vertically), auto or px width / height / min-height, display:none and absolutely positioned boxes anywhere, "
                  "any depth, any number of children), every available space of the root (definite, max-content, min-content) and "
                  "enough fuel, the layouts computed by compute_root_layout over the cache-free evaluator pass the driver's conversion "
                  "and violate no clause of the specification (block_trees_meet_margin_spec; without the preorder detour and without "
                  "exclusions A, B: block_trees_meet_margin_spec_core). Proved by induction over the tree "
                  "(block_subtree_meets_spec: after compute_child_layout with any PerformLayout input, from any state, the subtree's "
                  "stored layouts violate no clause) from two one-container theorems against an arbitrary stateless oracle: the "
                  "container's output (margin sets, collapse-through flag, height 0 when collapsed through) equals the "
                  "specification's topSet / bottomSet / collapsesThrough of the subtree when the children's outputs do "
                  "(block_output_meets_spec), and the positions / widths it assigns to its in-flow children satisfy first-child, "
                  "sibling-gap, through-pos, through-height and stretch (block_positions_meet_spec). The real cache is not part of the "
                  "theorem; whole trees under the real cache are checked by evaluation of the same specification on the "
                  "implementation's layouts (monitor).",
    "level_note": "Trusted: Lean kernel; hand-written model of block.rs validated by the correspondence run (Float32, bit-exact, query "
                  "order included); the trace hook; Lean Float32 = IEEE binary32. Axioms: propext, Classical.choice, Quot.sound.",
    "technique": "Lean 4 proofs over a free-monad model of block.rs (children as arbitrary oracles) + differential correspondence with "
                 "trace replay against TaffyTree + property monitor on the implementation's layouts + tree-level executable "
                 "specification of CSS 2.1 margin collapsing evaluated on whole-tree layouts + structural induction over the style "
                 "tree with the cache-free evaluator proving the specification for the whole family",
}

PROPS["C11"] = {
    "modules": ["TaffyVerif.Props.C11"],
    "theorems": [
        "C11.blockCallSite_area", "C11.flexCallSite_facts", "C11.gridCallSite_facts",
        "C11.block_start_inset_eq_x", "C11.block_start_inset_eq_y", "C11.block_end_inset_eq_x", "C11.block_end_inset_eq_y",
        "C11.block_stretch_size_eq_x", "C11.block_stretch_size_eq_y", "C11.block_min_floor",
        "C11.block_single_auto_margin_absorbs_left", "C11.block_single_auto_margin_absorbs_right",
        "C11.block_single_auto_margin_absorbs_top", "C11.block_single_auto_margin_absorbs_bottom",
        "C11.block_two_auto_margins_split_partial_x", "C11.block_two_auto_margins_split_partial_y",
        "C11.block_two_auto_margins_not_split",
        "C11.flex_start_inset_eq_x", "C11.flex_start_inset_eq_y", "C11.flex_end_inset_eq_x", "C11.flex_end_inset_eq_y",
        "C11.flex_stretch_size_eq_x", "C11.flex_stretch_size_eq_y", "C11.flex_min_floor",
        "C11.grid_start_inset_eq_x", "C11.grid_start_inset_eq_y", "C11.grid_end_inset_eq_x", "C11.grid_end_inset_eq_y",
        "C11.grid_stretch_size_eq_x", "C11.grid_stretch_size_eq_y", "C11.grid_min_floor",
        "C11.grid_end_inset_eq_needs_nonneg_extent",
        "C11.blockReported_of_length_border",
        "C11.block_monitor_sound", "C11.flex_monitor_sound", "C11.grid_monitor_sound",
    ],
    "harness": "C11", "driver": "C11", "monitor": True, "extra_ties": [("EVAL", "EVAL"), ("FLEX", "FLEX"), ("GRID", "GRID")], "extra_tie_cases": 4000,
    "rule": "a real tree per case: container (block/flex/grid round-robin; size mostly definite lengths, sometimes auto/percent; "
            "random padding, border (occasionally percent), overflow incl. scroll on either axis, scrollbar width 0/4/7.5/15, "
            "box-sizing, min/max, all four flex directions, wrap-reverse, every justify/align value; grid without explicit tracks) "
            "+ one absolutely positioned leaf with a uniformly drawn set/auto mask of the four insets (length incl. negative, percent), "
            "size/min/max auto|length|percent, margins length (incl. negative)|percent|auto, aspect ratio 1/8, content-box 1/5, own "
            "padding/border/scrollbar, measure context none|fixed|wrapping text; in 1/3 of the cases an in-flow sibling (flex/grid: "
            "before or after, block: after). All numbers are small dyadics so f32 and ℚ agree exactly. Fixed cases first: the "
            "witness of fix 37e5268 in all three containers, the two-auto-margin centring cases (40 and 60 in 100), the "
            "negative-extent padding box. The model is fed the container's observed size and must reproduce the child's unrounded "
            "layout bit for bit. Non-trivial = at least one inset is set; distinct = distinct request/answer transcripts.",
    "trusted_base": [
        "models of block.rs/flexbox.rs perform_absolute_layout_on_absolute_children and grid align_and_position_item/"
        "align_item_within_area (+ their call sites) are hand-written (Model/AbsPos.lean), three separate transliterations; tied "
        "to the code by bit-exact comparison of the child's whole Layout on generated trees",
        "the child's answer to perform_child_layout is a universally quantified oracle in the theorems; in the correspondence run it "
        "is Model/LeafOracle.lean (compute_leaf_layout + the harness' measure function), itself covered by the same comparison",
        "theorems are over ℚ; Lean's Float32 +,-,*,/,<,max/min are assumed to be IEEE binary32 as Rust's; no theorem relates f32 "
        "rounding to ℚ (the generated inputs are dyadic, the monitor compares with equality)",
    ],
    "assumptions": [
        "the absolutely positioned child has grid-row/grid-column auto (grid area = padding box); explicit lines are C06/C08 territory",
        "block copy: the container's reported border equals the border block.rs re-resolves against the container's own width "
        "(true unless the border uses a percentage; then the equations hold in terms of the re-resolved border)",
        "block call-site model: the abs child precedes the in-flow children (its static position is the content-box corner); the "
        "theorems do not depend on the static position",
        "calc() lengths are not modelled",
    ],
    "level_text": "For each of the three copies of the absolute-positioning code and each axis, for every container style, child style, "
                  "container size and every answer of the child to perform_child_layout: a set start inset puts the margin-box start "
                  "edge exactly that far from the padding-box start edge; otherwise a set end inset does the same at the end edge with "
                  "the scrollbar gutter excluded (grid: for a padding box of non-negative extent; the negative case is proved to "
                  "differ and reported as a known finding); both insets + auto size give size = clamp(max(extent − insets − margins, 0)) "
                  "with the minimum floored at the child's padding+border; block: a single auto margin absorbs exactly the remaining "
                  "space (the statement repaired by fix 37e5268). Two auto margins in the block copy split the space only if the style "
                  "size is below the remaining space: proved, with the CSS-conforming statement refuted on a witness that is replayed "
                  "on the implementation (known finding). Equations are stated in the container's reported layout.",
    "level_note": "Trusted: Lean kernel; three hand-written transliterations (validated bit-exactly, 9 000 trees quick / 600 000 thorough, "
                  "whole child Layout compared); leaf oracle model; Float32 = IEEE binary32. Axioms: propext, Classical.choice, Quot.sound "
                  "(concrete witnesses by `decide +kernel`).",
    "technique": "Lean 4 theorems over ℚ about three stage-by-stage transliterations + differential correspondence on real two/three-node trees",
}

PROPS["C19"] = {
    "modules": ["TaffyVerif.Props.C19"],
    "theorems": [
        "C19.leaf_root_spec", "C19.leaf_root_spec_no_ratio",
        "C19.fixed_ratio_both_sizes", "C19.fixed_ratio_max_height", "C19.fixed_ratio_content_box",
        "C19.fixed_ratio_auto_max_height",
        "C19.corner_block_root_max_transfer", "C19.corner_ratio_floored_width", "C19.corner_negative_padding",
        "C19.measure_called_once", "C19.measure_args", "C19.leaf_calls", "C19.leaf_early_return", "C19.leaf_run_modes_agree",
        "C19.leaf_hidden_mode_panics",
        "C19.measure_only_childless_boxes", "C19.dispatch_childless", "C19.no_measure_when_hidden", "C19.display_none_root",
        "C19.size_floor", "C19.min_wins_width", "C19.min_wins_height",
    ],
    "harness": "C19", "driver": "C19", "monitor": True, "extra_ties": [("EVAL", "EVAL")], "extra_tie_cases": 4000,
    "rule": "three streams. (1) leaf: random single-node styles (display block|flex|grid|none; size/min/max each auto|length|percent "
            "over a colliding pool; aspect ratio; padding/border length|percent; margins incl. auto and negative; overflow all four x "
            "scrollbar width; box-sizing; position) x node context (none|fixed|wrapping text) x available space "
            "(min-/max-content/definite incl. 0) through the real TaffyTree with rounding disabled: unrounded root layout + the recorded "
            "measure-call arguments, bit-exact. (2) leafraw: taffy::compute_leaf_layout called directly with arbitrary LayoutInput "
            "(all three run modes incl. the hidden-mode panic, both sizing modes, known dimensions, parent sizes, available spaces). "
            "(3) dispatch: small trees in which every node (also containers, display:none nodes and their descendants) carries a "
            "context; per node: was the measure closure invoked with that node id. Fixed witnesses for every excluded corner run first. "
            "Non-trivial = a box-generating case; distinct = distinct request/answer transcripts. Monitor: Spec.leafBox / "
            "Spec.leafMeasureCalls evaluated exactly over the rationals against the implementation's answer (all generated inputs are "
            "small dyadics, so f32 arithmetic is exact); cases outside the theorem's hypotheses in which the specification nevertheless holds are answered `ok excluded:<corner> "
            "spec-holds`; where it does not, the corner's tag is reported (known findings).",
    "trusted_base": [
        "models of src/compute/leaf.rs, compute_root_layout (src/compute/mod.rs) and the dispatch of TaffyView::compute_child_layout "
        "(src/tree/taffy_tree.rs) are hand-written (Model/Leaf.lean, Model/Root.lean); tied to the code by bit-exact comparison "
        "of layouts, outputs and measure-call arguments on generated inputs",
        "the specification Spec/LeafBox.lean is mine (written from the CSS box model); theorems relate the model at Rat to it",
        "the user's measure function is a pure function of its two arguments; calc() is not modelled (TaffyTree resolves it to 0)",
        "the cache is empty (fresh tree): compute_cached_layout runs the dispatch closure (cache behaviour is C02's subject)",
    ],
    "assumptions": [
        "theorems are over exact rationals; f32 rounding is outside them (the correspondence run is bit-exact at Float32)",
        "leaf_root_spec hypotheses (model of leaf.rs after repair 0f21303): vertical padding+border >= 0 (invalid CSS otherwise); with an "
        "aspect ratio: on a block root max-size has both axes definite or neither (known finding c19-root-max-transfer), and an "
        "undeclared height's width is not determined by the padding+border floor (known finding c19-ratio-unfloored-width). Each "
        "remaining corner is proved to differ from the specification on a concrete witness (C19.corner_*), replayed on the "
        "implementation (fixed cases) and, where it is a violation of the statement, reported as KNOWN-FINDING by the "
        "implementation-side oracle and the monitor; the three witnesses of the repaired defect are pinned (C19.fixed_*).",
    ],
    "level_text": "For every single-node style, measure function and available space (over exact rationals): the root's unrounded layout "
                  "and the list of measure-function calls computed by the line-by-line model of compute_root_layout + dispatch + "
                  "compute_leaf_layout equal the declarative box-model specification (definite style size incl. percentages and "
                  "aspect-ratio transfer, else block stretch, else content + padding + border + scrollbar gutter; min/max clamp with min "
                  "winning; floor at padding+border; location (0,0); edge fields), under hypotheses that are vacuous without an aspect "
                  "ratio except a non-negative vertical padding+border. The measure function is called exactly once for a box-generating "
                  "leaf, with no known dimension and the specified content-box space, never for display:none or in hidden mode, and the "
                  "dispatch reaches the measure closure only for childless box-generating nodes; compute_leaf_layout calls it at most "
                  "once, not at all on the ComputeSize early-return path, and panics before calling it in hidden run mode. Size >= "
                  "padding+border and min-wins-over-max hold unconditionally in both axes.",
    "level_note": "Trusted: Lean kernel; hand-written models (validated by the bit-exact correspondence run) and my specification. "
                  "Two aspect-ratio corners (root-vs-leaf max-size transfer on block roots; ratio applied to the unfloored width) remain "
                  "as explicit hypotheses with proved witnesses and are reported as known findings. Axioms: propext, Classical.choice, "
                  "Quot.sound.",
    "technique": "Lean 4 proof of model = declarative specification over Rat + differential correspondence (layouts and measure-call "
                 "arguments) with the real TaffyTree and compute_leaf_layout",
}

PROPS["C07"] = {
    "modules": ["TaffyVerif.Props.C07", "TaffyVerif.Props.C03Flex"],
    "theorems": [
        "C07.iteration_freezes_one", "C07.iteration_freezes_all_when_zero", "C07.freeze_loop_terminates",
        "C07.freeze_loop_terminates_succ", "C07.marginBoxes_eq_zip", "C07.line_order_no_overlap",
        "C07.nonfirst_offset_nonneg", "C07.first_offset_of_nonpos_free", "C07.first_offset_nonneg_of_nonneg_free",
        "C07.flexibility_exhausted", "C07.flexibility_exhausted_total",
        "C03Flex.iteration_freezes_one", "C03Flex.iteration_freezes_all_when_zero", "C03Flex.freeze_loop_terminates",
    ],
    "harness": "C07", "driver": "C07", "monitor": True, "extra_ties": [("FLEX", "FLEX")], "extra_tie_cases": 4000,
    "rule": "per case one flex line of 0..6 synthetic items driven through the REAL private functions "
            "resolve_flexible_lengths -> distribute_remaining_free_space -> calculate_layout_line (cfg(taffy_verif) hooks that "
            "build real FlexItem/FlexLine/AlgoConstants values), chained as compute_preliminary chains them: 4/5 well-formed items "
            "(fields related as determine_flex_base_size relates them; dyadic pools for bases, min/max, margins incl. auto, gaps; "
            "factors from {0, .25, .5, .75, 1, 1.5, 2, 3} or {0,1,2,3,4}; inner size = Σhyp (exact), below, above, half, indefinite), "
            "1/5 wild items (NaN, ±inf, subnormals, −0.0, negative values, pre-frozen items); all four directions, all nine "
            "justify-content values + None; plus un-chained drfs/pos inputs, an exhaustive table of compute_alignment_offset / "
            "apply_alignment_fallback over 10 free-space values × n=1..4 × modes × flags, 7 fixed witnesses, and whole layouts "
            "through TaffyTree (flex container with 0..6 leaf children with definite flex-basis, min/max, margins incl. auto, gap, "
            "padding/border, wrap/nowrap/wrap-reverse, display:none and absolute children) whose per-line margin boxes are observed. "
            "Non-trivial = at least one item (chained/un-chained) resp. at least two in-flow children (whole layout); distinct = "
            "distinct transcripts.",
    "trusted_base": [
        "Model/FlexLine.lean is hand-written from flexbox.rs (resolve_flexible_lengths, distribute_remaining_free_space, "
        "calculate_layout_line/calculate_flex_item main axis) and common/alignment.rs; tied to the code by bit-exact comparison "
        "(−0.0 printed as +0.0) of every answer of the real functions on generated item lists",
        "the model is over the main-axis projection of FlexItem; the hooks do the projection (Size::main, Rect::main_start/…) and "
        "fill every cross-axis slot with a poison value",
        "theorems are over exact rationals; f32 rounding is not modelled (the monitor evaluates the conclusions on the f32 answers "
        "exactly when the f32 answer equals the rational model's, else within 2^-18 relative)",
        "whole layouts: the tie for lines of real layouts is the monitor only (the model does not compute flex base sizes or line breaking)",
    ],
    "assumptions": [
        "flexibility_exhausted assumes hypothetical_inner_size = flex_basis clamped by the loop's own clamp "
        "(max(min(b,max),min) floored at 0); determine_flex_base_size guarantees this whenever max_size.main >= padding+border "
        "(or no max); items whose max is below their padding+border are outside the theorem",
        "line_order_no_overlap takes the size each child returns as a parameter >= 0 and insets at their default",
    ],
    "level_text": "For every item list, inner size and gap the freeze loop returns within n passes with every item frozen "
                  "(each pass freezes at least one item, all of them when the total violation is zero). For every line with "
                  "gap, margins >= 0 and default insets, every justify-content value, every sign of the free space and all four "
                  "directions, the margin boxes produced by distribute_remaining_free_space + calculate_layout_line are pairwise "
                  "ordered in document order (reversed for *-reverse) and never overlap; only the offset of the first visited item "
                  "can be negative (under end/flex-end/center with negative free space; the space-* values fall back to start). "
                  "For a definite inner size and every non-zero factor in the used direction >= 1, on exit either outer target "
                  "sizes + gaps = inner size exactly, or every item with a positive grow factor (positive scaled shrink factor "
                  "when shrinking) sits at its max (min) bound. All three are theorems over exact rationals about a model that "
                  "is tied to the real functions by bit-exact comparison.",
    "level_note": "Trusted: Lean kernel; hand-written model of the per-line main-axis functions (validated bit-exactly at Float32 "
                  "against the real private functions through cfg-guarded hooks); f32 rounding not modelled (theorems over Q). "
                  "Axioms: propext, Classical.choice, Quot.sound.",
    "technique": "Lean 4 proofs (measure argument for the loop; monotone-function invariant for exhaustion via an abstract loop "
                 "and a refinement, mirrored for shrinking; induction over the offset accumulation) + differential correspondence "
                 "through hooks + property monitor on whole layouts",
}

C05_EVAL_MODULES = ["TaffyVerif.Props.C05"]
C05_EVAL_THEOREMS = [
    "C05.sel_extracted",
    "C05.hiddenLayout_zero", "C05.hiddenLayout_zero_at",
    "C05.HZ_init", "C05.hidden_zero", "C05.own_layout_zero", "C05.hidden_zero_evalNode", "C05.HZ_reads",
    "C05.hidden_zero_pass",
    "C05.SimNS_init", "C05.hidden_invisible", "C05.hidden_invisible_evalNode", "C05.SimNS_reads",
    "C05.hidden_invisible_pass", "C05.HidRel_bare_leaf", "C05.HidRel_rfl", "C05.hidden_invisible_replace",
    "C05.AgreeH_iff",
]
C06_EVAL_MODULES = ["TaffyVerif.Props.C06"]
C06_EVAL_THEOREMS = [
    "C06.abs_invisible_node", "C06.SimA_init", "C06.abs_invisible", "C06.abs_invisible_evalNode",
    "C06.abs_invisible_realCache", "C06.caches_respect", "C06.exactMemo_respects'", "C06.SimA_reads",
    "C06.abs_invisible_pass", "C06.abs_invisible_replace", "C06.AbsEquiv_bind", "C06.AgreeA_iff",
]

C01_EVAL_MODULES = ["TaffyVerif.Props.C01"]
C01_EVAL_THEOREMS = [
    "C01.noCache_output", "C01.noCache_shape", "C01.outFresh_fuel_mono", "C01.outputs_transparent_exact",
    "C01.MemoValid_init", "C01.MemoValid_hidden", "C01.memo_eq_cachefree_output", "C01.modify_preserves_valid",
    "C01.replace_preserves_valid", "C01.edit_preserves_valid", "C01.history_valid",
    "C01.history_independent_outputs_exact", "C01.layouts_lockstep", "C01.single_pass_layouts_exact",
    "C01.layouts_final_quiet", "C01.single_pass_layouts_quiet", "C01.history_layouts_quiet",
    "C01.layouts_not_transparent_witness", "C01.witness_not_settled", "C01.witness_not_quiet",
    "C01.selOK_real", "C01.selOK_documented", "C01.exAlgs_PLCovers", "C01.Example.quiet",
]
C17_MODULES = ["TaffyVerif.Props.C17", "TaffyVerif.Props.C01"]
C17_THEOREMS = ["C17.dispatch_eq", "C17.hidden_mode_first", "C17.measure_only_childless_boxes", "C17.drivers_eq",
                "C01.memo_eq_cachefree_output", "C01.outputs_transparent_exact"]

C16_EVAL_MODULES = ["TaffyVerif.Props.C16"]
C16_EVAL_THEOREMS = [
    "C16.eval_erase", "C16.root_log_step", "C16.logInv_preserved", "C16.body_evals_le_stores", "C16.body_evals_le_queries",
    "C16.logBound_step", "C16.logBound_many", "C16.leaf_calls_le_pow", "C16.leaf_calls_le_pow_depth",
    "C16.keysIn_preserved", "C16.chain_const", "C16.chain_const_total", "C16.chain_leaf_const", "C16.nodes_exist",
]

EVALBLOCK_MODULES = ["TaffyVerif.Props.EvalBlock"]
EVALBLOCK_C05 = ["EvalBlock." + n for n in [
    "block_PHZ", "block_HiddenBlind", "algs_PHZ", "algs_HiddenBlind", "hidden_zero_algs", "hidden_invisible_algs",
    "eval_block_leaf_trees", "hidden_zero_block_leaf_trees", "hidden_zero_pass_block_leaf_trees",
    "hidden_invisible_block_leaf_trees", "hidden_invisible_pass_block_leaf_trees", "hidden_invisible_replace_block_leaf_trees"]]
EVALBLOCK_C06 = ["EvalBlock." + n for n in [
    "block_AbsBlind", "algs_AbsBlind", "abs_invisible_algs", "abs_invisible_block_leaf_trees",
    "abs_invisible_pass_block_leaf_trees", "abs_invisible_replace_block_leaf_trees"]]
EVALBLOCK_C01 = ["EvalBlock." + n for n in [
    "block_PLCovers", "algs_PLCovers", "single_pass_layouts_quiet_algs", "single_pass_layouts_quiet_block_leaf_trees",
    "history_layouts_quiet_block_leaf_trees", "hidden_order_history_repaired", "hidden_order_single_pass_repaired"]]
EVALBLOCK_C16 = ["EvalBlock." + n for n in [
    "block_CallsAtMost", "block_calls_lower", "not_AlgsCallsAtMost_algs", "leaf_calls_le_pow_block_leaf_trees",
    "block_child_input_depends_on_input"]]

EVALFLEX_MODULES = ["TaffyVerif.Props.EvalFlex"]
EVALFLEX_C05 = ["EvalFlex." + n for n in [
    "flex_PHZ", "flex_HiddenBlind", "algs_PHZ_flex", "algs_HiddenBlind_flex", "eval_block_flex_leaf_trees",
    "hidden_zero_block_flex_leaf_trees", "hidden_zero_pass_block_flex_leaf_trees",
    "hidden_invisible_block_flex_leaf_trees", "hidden_invisible_pass_block_flex_leaf_trees",
    "hidden_invisible_replace_block_flex_leaf_trees",
    "computePreliminary_eq", "Meas_flexPrefix", "idxs_collectFlexLines", "Lays_finalLayoutPass", "NoGrid_agree"]]
EVALFLEX_C01 = ["EvalFlex." + n for n in [
    "flex_PLCovers", "algs_PLCovers_flex", "single_pass_layouts_quiet_block_flex_leaf_trees",
    "history_layouts_quiet_block_flex_leaf_trees", "exQ_quiet", "block_in_flex_not_quiet",
    "Track_computeFlexboxLayout", "algsCovF_PLCovers", "NoGridHist_agree"]]
EVALFLEX_C16 = ["EvalFlex." + n for n in [
    "flex_CallsAtMost", "flex_CallsAtMost_fine", "flex_calls_tight", "leaf_calls_le_pow_block_flex_leaf_trees",
    "algsFanF_callsAtMost", "FanNoGrid_agree"]]

# the grid algorithm as a whole program (Model/Grid*.lean, Model/GridEval.lean): the evaluator-level hypotheses discharged
# for grid; with block and flexbox discharged too, the C05/C16 evaluator theorems hold for ALL style trees, the C01/C17 ones
# for all trees whose grid containers cannot panic (EvalGrid.GridCalm)
EVALGRID_MODULES = ["TaffyVerif.Props.EvalGrid"]
EVALGRID_C05 = ["EvalGrid." + n for n in [
    "grid_PHZ", "grid_HiddenBlind", "algs_PHZ_all", "algs_HiddenBlind_all",
    "hidden_zero_all_trees", "hidden_zero_pass_all_trees", "hidden_invisible_all_trees",
    "hidden_invisible_pass_all_trees", "hidden_invisible_replace_all_trees",
    "computeGridLayoutE_cases", "gridSetupK_cases", "placeGridItems_indices", "POp_trackSizingAlgorithmM",
    "K_gridMain", "K_gridStep7", "GLays_gridTail", "PHZ_computeGridLayout", "computeGridLayout_agree"]]
EVALGRID_C01 = ["EvalGrid." + n for n in [
    "grid_PLCovers_partial", "not_grid_PLCovers", "gridCov_PLCovers", "algsCovG_PLCovers",
    "single_pass_layouts_quiet_all_trees", "history_layouts_quiet_all_trees",
    "grid_noPanic_of_gridSafeB", "grid_PLCovers_of_gridSafeB", "gridCalm_of_gridCalmB", "exG_calm", "exG_quiet",
    "GTrack_computeGridLayoutE", "grid_covers_of_noPanic", "GridCalm_agree", "GridCalmHist_agree", "NoGrid_GridCalm",
    "GSafe_trackSizingAlgorithmM", "noPanic_computeGridLayoutE", "gridSafeB_sound", "gridCalmB_sound",
    "mergeSort_eq_msort", "gridAlg_eq_gridAlgK"]]
EVALGRID_C16 = ["EvalGrid." + n for n in [
    "grid_CallsAtMost", "grid_CallsAtMost_fine", "grid_calls_tight", "nItemsG_add_nHidAbsG", "leaf_calls_le_pow_all_trees",
    "algsFanG_callsAtMost", "Fan_agree", "GCalls_computeGridLayoutE", "LOp_batchLoopM", "GMeas_minContentChanged",
    "GMeas_step7Mid"]]

# flexbox as a whole program (Model/Flex.lean): the evaluator-level hypotheses discharged for flex
EVALFLEX_C06_MODULES = ["TaffyVerif.Props.EvalFlexAbs"]
EVALFLEX_C06 = ["EvalFlexAbs." + n for n in [
    "flex_AbsBlind", "flex_items_abs_blind", "flex_abs_pass_only_abs", "algs_AbsBlind_flex", "abs_invisible_flex_algs",
    "eval_block_flex_leaf_trees", "abs_invisible_block_flex_leaf_trees", "abs_invisible_pass_block_flex_leaf_trees",
    "abs_invisible_replace_block_flex_leaf_trees"]] + [
    "FlexStages.computePreliminary_eq", "FlexAbs.computeFlexboxLayout_equiv"]

EVALFLEX_C04_MODULES = ["TaffyVerif.Props.EvalFlexScale"]
EVALFLEX_C04 = ["C04Flex." + n for n in [
    "flex_homogeneous", "flex_split", "flex_prefix_homogeneous", "flex_main_size_homogeneous",
    "flex_after_main_homogeneous", "item_fraction_homogeneous", "item_fraction_sign", "item_target_homogeneous",
    "item_target_eq", "flex_homogeneous_run", "run_of_homogeneous", "algsHomogeneous_flex",
    "tree_homogeneous_flex_algs", "NoGrid_NoG_real", "NoGrid_scale", "eval_noGrid_congr",
    "tree_homogeneous_block_flex_leaf_trees", "tree_homogeneous_block_flex_leaf_trees_fresh", "exTree_noGrid"]] + [
    "FlexStages.computePreliminary_split", "FlexStages.flexBaseSizeItem_eq", "FlexStages.intrinsicItem_eq",
    "FlexStages.determineContainerMainSize_eq", "FlexStages.hypotheticalCrossItem_eq", "FlexStages.baselineItems_cons",
    "FlexStages.calculateFlexItem_eq", "FlexStages.absItem_eq",
    "C04.intrinsicTarget_scale", "C04.inFraction_scale", "C04.intrinsicLines_scale", "C04.afterMain_scale",
    "C04.prefixProg_scale", "C04.computeFlexboxLayout_scale", "C04.computeFlexboxLayout_scale_run", "C04.runO_sim",
    "FlexTrees.eval_algs_congr_grid", "FlexTrees.NoGrid_NoG"]

EVALFLEX_C12_MODULES = ["TaffyVerif.Props.EvalFlexBox"]
EVALFLEX_C12 = ["C12Flex." + n for n in [
    "flex_container_site_equiv", "flex_item_site_equiv", "flex_sites", "flex_ContainerBlind", "boxBlind_flex",
    "tree_equiv_flex", "tree_equiv_block_flex_leaf_trees", "tree_equiv_root_block_flex_leaf_trees"]] + [
    "C12L.flex_containerBlind", "C12L.fbDefinite_tbb", "C12L.usedCrossItem_tbb", "C12L.computeConstants_tbb"]

# grid as a whole program (Model/Grid.lean, GridItem.lean, GridSizing.lean): the evaluator-level hypotheses for grid
EVALGRID_C12_MODULES = ["TaffyVerif.Props.EvalGridBox"]
EVALGRID_C12 = ["C12Grid." + n for n in [
    "grid_container_site_equiv", "grid_item_site_equiv", "grid_sites", "grid_ContainerBlind", "boxBlind_all",
    "tree_equiv_all_trees", "tree_equiv_all_trees_dispatch", "tree_equiv_root_all_trees", "treeAB_rel",
    "allAlgsK_eq"]] + [
    "C12L.grid_containerBlind", "C12L.readers_rat", "C12L.mcCap_bump", "C12L.knownDimensions_bump", "C12L.mkCtx_tbb",
    "GridRel.computeGridLayoutE_rel", "GridStages.computeGridLayoutE_eq", "GridKernel.gridAlgK_eq"]

EVALGRID_C06_MODULES = ["TaffyVerif.Props.EvalGridAbs"]
EVALGRID_C06 = ["EvalGridAbs." + n for n in [
    "runAns_absEquiv", "w_agree", "w_agree_overflow", "w_line", "w_auto", "w_overflow", "grid_not_AbsBlind",
    "grid_AbsBlind_upToPanic_partial", "grid_AbsBlind_noPanic_partial", "grid_AbsBlind_safe", "grid_AbsBlind_partial",
    "linesAgree_of_auto", "grid_AbsBlind_auto", "gridN_AbsBlind", "gridC_AbsBlind",
    "abs_invisible_all_trees_calm_partial", "abs_invisible_pass_all_trees_calm_partial",
    "abs_invisible_all_trees_gridCalmB", "abs_invisible_all_trees_partial",
    "abs_invisible_pass_all_trees_partial", "w_safe", "old_witness_invisible", "treeAB_rel", "treeA_auto", "treeB_auto",
    "treeCB_rel", "treeC_calm", "treeB_calm"]] + [
    "GridAbs.gridAlg_relW", "GridAbs.gridAlg_absEquiv_noErr", "GridAbs.gridAlg_absEquiv", "GridAbs.gridAlg_absEquiv_autoR",
    "GridAbs.gridAlg_absEquiv_autoL", "GridAbs.absStep_weak", "GridAbs.gridAlgN_AbsBlind", "GridAbs.gridAlgC_AbsBlind",
    "GridAbs.eval_gridAlgN", "GridAbs.GridAbsCalm_agree", "GridAbs.GridCalm_GridAbsCalm", "GridAbs.GridAbsAuto_GridAbsCalm",
    "GridAbs.absAutoLinesB_iff", "GridAbs.noErr_iff_noPanic",
    "GridRel.computeGridLayoutE_relW", "GridRel.PRelW.bindCont", "GridRel.PRelW.to_PRel",
    "GridRel.computeGridLayoutE_rel", "GridStages.computeGridLayoutE_eq", "GridKernel.gridAlgK_eq",
    "EvalGrid.gridSafeB_sound", "EvalGrid.gridCalmB_sound", "EvalGrid.tryIntoTrackVecIndex_spec",
    "EvalGrid.absTrackIndexes_in"]

EVALGRID_C04_MODULES = ["TaffyVerif.Props.EvalGridScale"]
EVALGRID_C04 = ["C04Grid." + n for n in [
    "grid_homogeneous_modulo", "gridAlgG_real", "explicit_grid_size_homogeneous", "track_sizing_fixed_homogeneous",
    "grid_homogeneous_partial", "gridAlgT_real", "track_sizing_joint_homogeneous",
    "explicit_grid_size_joint_homogeneous", "grid_homogeneous_joint", "grid_scaled_run",
    "grid_homogeneous_run_partial", "grid_homogeneous_run_iff",
    "witness_values", "grid_not_homogeneous", "not_algsHomogeneous_grid",
    "witness_side_condition", "witness2_values", "grid_not_homogeneous_autorepeat", "witness2_side_condition",
    "scale_scales_grid", "gscale_eq_scale", "scale_scales_grid_tracks", "exGrid_fixed", "inGrid_run",
    "inGrid_constFree", "witnesses_not_constFree"]] + [
    "C04.gridAlgG_scale", "C04.mkCtx_scale", "C04.computeExplicit_scale", "C04.initializeGridTracks_scale",
    "C04.alignTracks_scale", "C04.gridFinish_sim", "C04.trackSizing_fixed_hom", "C04.initializeGridTracks_fixed",
    "C04.trackSizingT_hom", "C04.computeExplicitT_scale", "C04.gridAlgT_scale", "C04.resolveIntrinsicTrackSizesT_sim",
    "C04.expandFlexibleTracksM_sim", "C04.maximiseTracksT_scale", "C04.stretchAutoTracks_scale",
    "C04.distributeSpaceUpToLimitsT_scale", "C04.findSizeOfFr_scale",
    "GridScale.gridAlgG_eq", "GridKernel.gridAlgK_eq", "GridTheta.trackSizingAlgorithmT_eq",
    "GridTheta.computeExplicitT_eq", "GridTheta.gridAlgT_real", "GridTheta.gridAlgTK_eq"]

# the tree level for ALL trees (block, flexbox, grid, leaves): Props/C04Tree.lean
C04TREE_MODULES = ["TaffyVerif.Props.C04Tree"]
C04TREE = ["C04Tree." + n for n in [
    "algsT_real", "realAlgs_eq", "thresholds_rat", "tree_homogeneous_rel", "tree_homogeneous_of_rel",
    "algsHomRel_joint", "tree_homogeneous_joint_all_trees_with", "tree_homogeneous_joint_all_trees",
    "tree_homogeneous_real_constants", "tree_homogeneous_real_constants_fresh", "gridFixedS_gridFixed",
    "gridFixedS_of_no_autorepeat", "gridFixedTreeB_iff", "NoGrid_GridFixedTree", "GridFixedTree_GridNodes",
    "algsHomRel_real_partial", "tree_homogeneous_all_trees_partial", "tree_homogeneous_all_trees_partial_fresh",
    "realAlgs_not_homogeneous", "realAlgsK_eq", "algsTK_eq", "exGrid_fixedS", "exTree_fixed", "exTree_not_noGrid",
    "exTree_layout", "exTree_layout_times_4", "exTree_layout_div_4", "wTree_not_fixed", "wTree_layout",
    "wTree_layout_times_16_joint", "wTree_layout_times_16_real", "tree_not_homogeneous_real"]] + [
    "C04.evalNodeWith_scale_rel", "C04.computeOf_scale_rel", "C04.runProg_scale_rel", "C04.GridNodes_true",
    "C04.ExplicitNoPx_static", "C04.findAutoRepetition_mem", "C04.trackDefiniteValue_fixed"]

_PAIRS_TRUSTED = [
    "the whole-tree clause is NOT a theorem here: it is checked by sampling tree pairs on the real implementation "
    "(fresh TaffyTree, rounding disabled, harness measure function treegen::measure); the predicate is evaluated twice, "
    "by the Rust oracle in harness/src/pairs.rs and by Lean (Drv/Pairs.lean) on the layouts the implementation produced; "
    "the Lean side also re-derives tree B from tree A on the serialised (non-grid) part of the style",
    "grid templates, grid_auto_* and grid-row/column are not part of the tree line: that B carries the transformed/reset "
    "grid fields is trusted to harness/src/pairs.rs",
    "theorems about the modelled algorithms are to be added by the coordinator (placeholder obligation C02.slot_lt)",
]

PROPS["C01"] = {
    "modules": C01_EVAL_MODULES + EVALBLOCK_MODULES + EVALFLEX_MODULES + EVALGRID_MODULES + ["TaffyVerif.Props.C15", "TaffyVerif.Props.C15Pass", "TaffyVerif.Props.C15Refine", "TaffyVerif.Props.C15Mut"], "theorems": C01_EVAL_THEOREMS + EVALBLOCK_C01 + EVALFLEX_C01 + EVALGRID_C01 + ["C15.step_preserves_K", "C15.I_reachable", "C15Pass.pass_cleans", "C15Refine.eval_pass_preserves_K_all_trees", "C15Refine.eval_pass_cleans_all_trees",
        # the Edit steps of history_independent_outputs_exact are what the mutators + mark_dirty (early exit) do (Props/C15Mut.lean)
        "C15Mut.memoDObs", "EvalDirtyEdit.go_eq_clearPath", "EvalDirtyEdit.stateModifyAt_clear", "EvalDirtyEdit.modify_raw",
        "C15Mut.markDirty_eq_clear_path_of_K", "C15Mut.mutApply_preserves_K", "C15Mut.markDirty_establishes_Edit", "C15Mut.markDirty_establishes_Edit_real",
        "C15Mut.eval_PL_inv", "C15Mut.mut_history_eq", "C15Mut.history_independent_outputs_exact_mut",
        "C15Mut.history_independent_outputs_exact_mut_real", "C15Mut.history_independent_outputs_exact_mut_all_trees",
        "C15Mut.markDirty_not_clear_path_under_hidden",
        "C15Mut.markDirty_rose_clear_path_partial"],  # PLACEHOLDER — C01's theorems (stamp_valid, transparency under HitAfterQuiet, …) to be added
    "harness": "C01", "driver": "C01", "monitor": False, "extra_ties": [("EVAL", "EVAL"), ("FLEX", "FLEX"), ("GRID", "GRID")], "extra_tie_cases": 4000, "harness_timeout": 900,
    "rule": "random histories (5-25 ops) on ONE long-lived TaffyTree<Ctx> next to a mirror description: set_style (fresh / identical / "
            "display:none toggle), set_node_context, add_child / insert_child_at_index / replace_child_at_index with a newly generated or a "
            "detached subtree, remove_child_at_index, remove_children_range (in range), set_children (permutation / reparenting; no cycles), "
            "remove, mark_dirty, enable/disable_rounding, compute_layout_with_measure on the main root or any parentless node (repeated, "
            "alternating and fresh available spaces); plus an `invalidate` stream (tree, pass, mark_dirty(n), same pass). After EVERY pass a "
            "fresh TaffyTree is built from the mirror (same rounding flag) and every node's unrounded_layout and layout() are compared "
            "bit-exactly (-0.0 -> +0.0). Every history runs in four cache modes (real; real + quiet hits; exact keys; exact keys + quiet hits: "
            "hook H1), each a separately labelled stream; a difference is attributed by the neutraliser that removes it. Request = tree line, "
            "available space and the four layout lists of one pass; the Lean handler re-evaluates list equality. Non-trivial = at least one "
            "structural edit and two passes; distinct = distinct transcripts. Full observation lines are written for the first 700 + 200 "
            "histories and for every differing pass (up to 20 000 of them); the remaining passes are counted (`quiet` line).",
    "trusted_base": [
        "the whole-tree clause (incremental = fresh for every node after every pass) is SAMPLED on the implementation by the harness; "
        "no Lean theorem about it is audited yet (placeholder obligation C02.slot_lt); the Lean driver only re-evaluates the equality "
        "predicate on the observed layout lists",
        "the mirror (harness/src/hist.rs Mirror) is the specification of what the live tree should be; the fresh tree is built from it",
        "attribution uses hook H1 (src/verif_hooks.rs + cfg-guarded lines in src/tree/cache.rs): exact-key mode (match on the complete "
        "LayoutInput, one PerformLayout entry per node) and quiet-hit mode (every store drops the node's PerformLayout entry)",
    ],
    "assumptions": ["measure data is a pure function (Ctx::Fixed / Ctx::Wrap)",
                    "histories respect the precondition: ids live, attach only detached nodes (or via set_children), no cycles, in-range ranges"],
    "undischarged": ["all of C01's theorems (to be added by the coordinator); real-mode equality on the three container algorithms is sampled"],
    "level_text": "Theorems over the tree-level evaluator (Model/Eval.lean, every dispatch, every algorithm bundle): the OUTPUT of a node is a pure function of its subtree and input (outFresh); an exact (full-input) memo whose entries agree with outFresh returns outFresh and stays valid (outputs_transparent_exact); edits that replace a subtree and clear the memos on the path to the root — what the mutators plus mark_dirty achieve, by C15's invariant — preserve validity, so after ANY history of edits and passes the output for the root equals the output of a cache-free pass over a freshly built tree (history_independent_outputs_exact). For the stored LAYOUTS the statement is false in general: layouts_not_transparent_witness is a machine-checked counterexample in which every program has the shape '(ComputeSize)* then PerformLayout per child' (a ComputeSize evaluation rewrites descendants between a PerformLayout store and a later hit), and the same scenario was then reproduced on the real code (known finding c01-stale-layout-after-compute-size). Under the trace condition QuietRun (no body evaluation of a node between a PerformLayout store and a hit on it) and PLCovers, layouts after any quiet history equal those of a fresh cache-free pass; PLCovers is proved for the block model, so on trees of block containers and leaves the theorem needs QuietRun only. On the real code: random histories of every mutator interleaved with passes on any root are compared with a freshly built tree, in four cache modes (real, real+quiet hits, exact keys, exact+quiet), every discrepancy is attributed by the mode that removes it, and a cache-conformance oracle checks every hit of the real trace against cache.rs' rule.",
    "level_note": 'partial: equality of stored layouts under the real nine-slot cache is NOT a theorem (it is false: known findings lossy key, stale layouts after a ComputeSize evaluation, attach under a clean hidden node); with exact keys it is proved under QuietRun/PLCovers; PLCovers is PROVED for block (EvalBlock.block_PLCovers), flexbox (EvalFlex.flex_PLCovers) and — for every run that does not panic — grid (EvalGrid.grid_PLCovers_partial; Model/Grid.lean, tied by the GRID correspondence). AlgPLCovers for grid AS STATED is false of the model (EvalGrid.not_grid_PLCovers: a child with grid-column 32767 / span 2 overflows i16 in the size estimate — a panic of the implementation in a debug build, replayed — and a panicking run lays out nothing), so the layout theorems hold for ALL style trees whose grid containers cannot panic (EvalGrid.GridCalm; single_pass_layouts_quiet_all_trees, history_layouts_quiet_all_trees), under the trace condition QuietRun only; GridCalm follows from an executable check (EvalGrid.gridCalmB: no auto-fill/auto-fit repetition, the setup does not panic, item track indexes inside the track vectors, no i16 overflow when the lines of absolutely positioned children are resolved; EvalGrid.gridSafeB_sound proves that then NO run panics, for every input and all child answers). Axioms: propext, Classical.choice, Quot.sound.',
    "technique": 'Lean 4 refinement proof (exact memo vs cache-free evaluator, edits, histories) + counterexample + differential histories against fresh trees in four cache modes',
    "undischarged": ['PLCovers is discharged for block, flexbox and the non-panicking runs of grid (EvalGrid.grid_PLCovers_partial); what remains for grid is the absence of panics (EvalGrid.GridCalm is a hypothesis on the tree: no grid container outside display:none subtrees can panic; it is implied by the executable check EvalGrid.gridCalmB, which excludes auto-fill/auto-fit templates and containers whose setup overflows); QuietRun is a trace condition (monitored on the implementation through the quiet-hit cache mode)', 'real-cache layout transparency: false (three known findings)'],
}

PROPS["C16"] = {
    "modules": C16_EVAL_MODULES + EVALBLOCK_MODULES + EVALFLEX_MODULES + EVALGRID_MODULES, "theorems": C16_EVAL_THEOREMS + EVALBLOCK_C16 + EVALFLEX_C16 + EVALGRID_C16,  # PLACEHOLDER — C16's theorems (body_evals_le_distinct_keys, queries_per_invocation, chain_const) to be added
    "harness": "C16", "driver": "C16", "monitor": False, "harness_timeout": 900, "extra_ties": [("EVAL", "EVAL"), ("FLEX", "FLEX"), ("GRID", "GRID")], "extra_tie_cases": 4000,
    "rule": "fresh trees, one compute_layout pass each: (i) 3000 random mixes (all displays, hidden/absolute nodes, Fixed and Wrap leaves) with "
            "up to 40/150/300 nodes, depth up to 12, up to 10 children; (ii) single-child chain families (same level styles cycled, depth "
            "1..64): every container kind and five mixed cycles x nine sizing variants x four available spaces x Fixed/Wrap leaf, plus 300 "
            "random families (1-4 random container styles, random leaf style). Counted: measure-function invocations per node (Cell counter "
            "in the closure) and algorithm-body evaluations per node (QueryKind::Miss of trace hook H3). Oracles: total measure calls <= "
            "64 x nodes; per chain family the leaf's call count at the last depth reached must not exceed the count at depth 8 and no depth "
            "may exceed 64 x (depth+1). A pass is aborted at 1024 x N layout queries (hook: set_query_budget) or 512 x N measure calls. "
            "Non-trivial = at least 3 nodes; distinct = distinct transcripts.",
    "trusted_base": [
        "the cost bounds are MEASURED on the implementation; no Lean theorem about them is audited yet (placeholder obligation); the Lean "
        "driver re-evaluates the bound predicates on the reported counts",
        "counts come from the harness' measure closure and from hook H3 (src/verif_hooks.rs trace, query budget)",
    ],
    "assumptions": ["the measure function is pure; cost is counted in calls, not in time"],
    "undischarged": ["all of C16's theorems; the global 64 x N bound is not a planned theorem (DESIGN.md §8 C16)"],
    "level_text": "Theorems over the tree-level evaluator with a logging cache: logging changes nothing; exactly one store per body evaluation; with the exact memo the keys stored since the last clear are pairwise distinct, so a node's body is evaluated at most once per distinct query between invalidations; if every container program makes at most q child calls per run, a node at depth k is evaluated at most q^k times from a fresh state under ANY cache (tight without a cache); if all call inputs of all programs come from a fixed list Ks, every non-root node is evaluated at most |Ks| times whatever the depth (chain_const). For the block model: at most 2·n calls for n children, for flexbox 6·n (tight), for grid 11·n (EvalGrid.grid_CallsAtMost, tight: EvalGrid.grid_calls_tight; 11 per grid item: both axes × (min-content, max-content) × (first run, step-7 re-run) + 2 baseline queries + the final layout; constant per child — independent of the number of tracks and batches — because every contribution query goes through the item's per-axis caches), so EVERY style tree with at most b children per node evaluates a node at depth k at most (11·b)^k times (EvalGrid.leaf_calls_le_pow_all_trees, unconditional); block: its call inputs do depend on its own input (so chain_const's hypothesis fails for block — consistent with the measured growth). The property's global bound 64 × nodes and its chain clause are NOT theorems: on the real code the random mixes stay far below the bound (max 27.9 calls per node) but single-child chains violate both clauses (known findings: linear growth 4d+1 for a flex-row chain with a wrapping leaf; exponential growth for block/flex-column/grid cycles).",
    "level_note": 'partial: the quantitative clauses are sampled (measure-call and body-evaluation counters through the trace hook; a query budget stops exponential passes) and two of them are genuinely violated by the unchanged code (known findings). Axioms: propext, Classical.choice, Quot.sound.',
    "technique": 'Lean 4 cost-semantics theorems on the evaluator + measured call counts on chains (depth ≤ 64) and random mixes (≤ 300 nodes)',
    "undischarged": ['64 × nodes: not a theorem; chain clause: false of the code (known findings c16-chain-growth, c16-measure-blowup)'],
}

PROPS["C17"] = {
    "modules": C17_MODULES + EVALFLEX_MODULES + EVALGRID_MODULES, "theorems": C17_THEOREMS + EVALFLEX_C01 + EVALGRID_C01,  # PLACEHOLDER — C17's theorems (dispatch_eq, drivers_eq) to be added
    "harness": "C17", "driver": "C17", "monitor": False, "extra_ties": [("EVAL", "EVAL"), ("FLEX", "FLEX"), ("GRID", "GRID")], "extra_tie_cases": 4000, "harness_timeout": 900,
    "rule": "12 000 generated trees (full observation lines for the first 4000 and for every differing case) (60% up to 12 nodes / depth 3, 40% up to 40 nodes / depth 6; flex/grid/block/none, Fixed/Wrap/no measure "
            "data), random available space, rounding on or off. Each is laid out by TaffyTree::compute_layout_with_measure and by an "
            "independent Vec-backed tree (harness/src/hist.rs VTree) that implements TraversePartialTree, TraverseTree, LayoutPartialTree, "
            "CacheTree, RoundTree, LayoutFlexboxContainer, LayoutGridContainer, LayoutBlockContainer as examples/custom_tree_vec.rs and the "
            "trait documentation prescribe and drives compute_root_layout / compute_cached_layout / compute_{block,flexbox,grid}_layout / "
            "compute_leaf_layout / compute_hidden_layout / round_layout; both again in exact-key mode; small trees (<= 12 nodes, depth <= 3) "
            "also cache-free (cache_get never hits; budget 3M queries). Compared bit for bit: TaffyTree vs driver (real and exact keys), "
            "exact-key memo vs cache-free (with the quiet-hit neutraliser on a difference), real cache vs exact-key memo. Request = tree line, "
            "available space, every layout list; the Lean handler re-evaluates all comparisons. Non-trivial = at least 3 nodes.",
    "trusted_base": [
        "driver equality is SAMPLED on the implementation; no Lean theorem about it is audited yet (placeholder obligation)",
        "VTree is my reading of the trait documentation (hidden mode first, cached layout, display:none, dispatch on display and child "
        "count, leaf with the node's measure data, root layout, rounding)",
        "exact-key / quiet-hit modes are hook H1; the cache-free evaluation is VTree with a cache that never hits",
    ],
    "assumptions": ["same pure measure function on both sides; calc() resolves to 0 on both sides"],
    "undischarged": ["all of C17's theorems (to be added by the coordinator)"],
    "level_text": "Theorems: the dispatch arms extracted from TaffyView::compute_child_layout select, for every display mode and child count, the function the documentation names (dispatch_eq), hidden run mode is handled first, the measure function is reachable only for childless box-generating nodes, and the evaluator with TaffyTree's dispatch IS the evaluator with the documented dispatch (drivers_eq) for every cache implementation and algorithm bundle; with an exact memo the outputs equal the cache-free outputs (memo_eq_cachefree_output). On the real code an independent Vec-backed tree implementing the public traits as the documentation prescribes is laid out next to TaffyTree (rounding on and off, real and exact keys): 0 differences; exact memo vs cache-free: equal except the stale-layout finding; real cache vs exact memo differs on 12 % of random trees (known finding: lossy key).",
    "level_note": 'partial: equality of stored layouts between the real cache and the exact memo is false (known finding c17-lossy-cache-key). Exact memo vs cache-free: the stored layouts agree after a quiet PerformLayout pass on EVERY style tree whose grid containers cannot panic (EvalGrid.single_pass_layouts_quiet_all_trees; PLCovers proved for block, flexbox and the non-panicking runs of grid). Axioms: propext, Classical.choice, Quot.sound.',
    "technique": 'extracted dispatch table + Lean equality of drivers + differential run against an independent implementation of the public traits',
    "undischarged": ['layout equality real cache vs exact memo: false (known findings)'],
}

PROPS["C04"] = {
    "modules": ['TaffyVerif.Props.C04', 'TaffyVerif.Props.C04Cache'] + EVALFLEX_C04_MODULES + EVALGRID_C04_MODULES + C04TREE_MODULES, "theorems": EVALFLEX_C04 + EVALGRID_C04 + C04TREE + ['C04Cache.isRoughlyEqual_not_homogeneous', 'C04Cache.isRoughlyEqual_scale_same', 'C04Cache.isRoughlyEqual_apart_scale_up'] + ['C04.num_homogeneous', 'C04.resolve_homogeneous', 'C04.aspect_ratio_homogeneous', 'C04.clamp_homogeneous', 'C04.margin_set_homogeneous', 'C04.measure_homogeneous', 'C04.leaf_homogeneous', 'C04.leaf_homogeneous_ctx', 'C04.root_homogeneous', 'C04.abs_homogeneous', 'C04.abs_call_sites_homogeneous', 'C04.flex_line_homogeneous', 'C04.block_homogeneous', 'C04.flow_loop_homogeneous', 'C04.place_item_homogeneous', 'C04.tree_homogeneous', 'C04.tree_homogeneous_fresh', 'C04.tree_homogeneous_evalNode', 'C04.leafAlg_homogeneous', 'C04.algs_homogeneous_concrete', 'C04.tree_homogeneous_concrete', 'C04.cache_roughly_equal_homogeneous', 'C04.cache_roughly_equal_not_homogeneous'],
    "harness": "C04", "driver": "C04", "monitor": False, "extra_ties": [("EVAL", "EVAL"), ("FLEX", "FLEX"), ("GRID", "GRID")], "extra_tie_cases": 4000,
    "rule": "style trees of 1-12 nodes, depth <= 4, flex/grid/block mixed (treegen::gen_tree with every feature on: hidden, "
            "absolute, percentages, aspect ratios, content-box, auto/negative margins, scroll containers, wrap/fixed measure "
            "contexts, grid lines) plus extra grid tracks (fit-content(px/%), minmax(px, px|auto|max-content), auto-fill/auto-fit) "
            "and small flex bases; available space definite/min-/max-content per axis; tree B = every absolute length (size, "
            "min/max size, margin, padding, border, inset, gap, flex-basis, scrollbar width, fixed/fit-content/minmax track sizes, "
            "measure-context sizes, definite available space) x 2^e, e in {-3..8}\\{0}. Predicate: every f32 field of every "
            "node's unrounded layout in B equals 2^e x the field in A bit-exactly (-0.0 = +0.0), order equal. A mismatch is attributed "
            "with the help of two cfg(taffy_verif) counters (hooks.patch: flexbox.rs floor taken with a non-zero basis; grid "
            "track_sizing.rs positive length <= THRESHOLD): (1) a grid threshold was met in A or B and B = 2^e x A up to "
            "0.05(1+2^e) + 2^-16|B| = known finding c04-grid-track-threshold; (2) the flex floor was taken in A or B and the pair "
            "2^12 x A / 2^(12+e) x A (then, if needed, with flex_shrink 0 -> 1) is homogeneous = known finding "
            "c04-flex-shrink-floor-at-one; anything else is a violation (described with a greedily minimised tree). Fixed first: "
            "the design's witness (flex-basis 0.875, flex-shrink 0.5, content 0.5, x16), the grid-threshold witness (2^-7 px wide grid, "
            "minmax(0,100px) column, x16) and a plain homogeneous grid. Non-trivial = tree A has a non-zero layout; distinct = "
            "distinct transcripts.",
    "trusted_base": _PAIRS_TRUSTED + [
        "power-of-two factors with lengths <= 2^10 and >= 2^-5 keep every intermediate finite and normal, so exact "
        "homogeneity is the expected outcome of IEEE arithmetic; no theorem relates Float32 to Rat here"],
    "assumptions": ["scale factors are powers of two; the measure function is itself homogeneous (Fixed / Wrap contexts)",
                    "former finding c04-flex-shrink-floor-at-one (flex_shrink x inner_flex_basis floored at 1 in the flex intrinsic "
                    "main-size path) is repaired in flexbox.rs: the attribution to it is still in the harness and is expected to "
                    "explain 0 cases",
                    "known finding c04-grid-track-threshold (found by this check): grid track sizing compares lengths with the "
                    "absolute constants 0.01 and 1e-6, so homogeneity holds only up to those thresholds (typically last-ulp "
                    "differences from redistributed f32 rounding dust; macroscopic only for sub-0.01px free space)",
                    "a tree on which both layouts panic is skipped (counted as panic:both; one such input class is a C03 matter: "
                    "repeat(auto-fit, ...) columns in a grid whose only children are display:none)"],
    "level_text": "Theorems at exact rationals, for every k > 0: every modelled function commutes with scaling all lengths by k — length/percentage resolution, the five MaybeMath clamp families, aspect-ratio transfer, margin sets, the measure functions, compute_leaf_layout (output and measure-call arguments), compute_root_layout's parts, the three absolute-positioning copies and their call sites, the flex line functions (freeze loop, justification, positions — no side condition needed), and the WHOLE block algorithm as an interaction program; and tree_homogeneous: the cache-free tree-level evaluator maps the scaled tree/state/input to the scaled output and scaled layouts whenever the container algorithms are homogeneous, which is proved for leaf, block and — unconditionally, since the repair of the scaled flex shrink factor in determine_container_main_size — the WHOLE flexbox algorithm as an interaction program (C04Flex.flex_homogeneous), so trees of block containers, flexbox containers and leaves are homogeneous outright, whatever the grid algorithm (C04Flex.tree_homogeneous_block_flex_leaf_trees). scale multiplies the lengths inside the grid track lists too, and the tree theorem is lifted to ALL trees in the two strongest true forms (Props/C04Tree.lean): unconditionally for every tree when the three absolute constants of the grid algorithm are scaled along with the lengths (C04Tree.tree_homogeneous_joint_all_trees; at the real constants C04Tree.tree_homogeneous_real_constants), and for the real algorithms on every tree whose grid containers have fixed-size tracks (C04Tree.tree_homogeneous_all_trees_partial); without that hypothesis the real-algorithm statement is refuted at the tree level (C04Tree.tree_not_homogeneous_real). The cache's ε comparison is proved NOT homogeneous (witness) — hence the statement on cache-free evaluation. On the real code the clause is sampled on tree pairs with power-of-two factors, bit-exact.",
    "level_note": 'flexbox.rs as a whole program (Model/Flex.lean) is proved homogeneous UNCONDITIONALLY (C04Flex.flex_homogeneous: for every k > 0, style, child styles and input the program of the scaled container is the scaled program; pieces: C04Flex.flex_prefix_homogeneous, flex_main_size_homogeneous, flex_after_main_homogeneous; item level: item_fraction_homogeneous, item_target_homogeneous; runs: flex_homogeneous_run), hence AlgsHomogeneous for leaf+block+flex with only the grid hypothesis (C04Flex.algsHomogeneous_flex, tree_homogeneous_flex_algs) and the tree theorem with no hypothesis on trees of block containers, flexbox containers and leaves (C04Flex.tree_homogeneous_block_flex_leaf_trees on NoGrid trees, cache-free evaluator). This holds of the REPAIRED code: flexbox.rs determine_container_main_size now computes the max-content flex fraction of a shrinking item as diff / (f32_max(1.0, flex_shrink) * inner_flex_basis) (0 when that scaled shrink factor is not positive) instead of diff / f32_max(1.0, flex_shrink * inner_flex_basis) — the former finding c04-flex-shrink-floor-at-one, whose witness is kept as a regression example (now homogeneous) and whose refutation C04Flex.flex_not_homogeneous no longer holds. The WHOLE grid program (Model/Grid.lean, tied by the GRID correspondence) is treated in Props/EvalGridScale.lean: the unconditional statement is refuted on two witnesses replayed on the real code — C04Grid.grid_not_homogeneous (THRESHOLD = 0.01 of distribute_space_up_to_limits, known finding c04-grid-track-threshold) and C04Grid.grid_not_homogeneous_autorepeat (compute_explicit_grid_size_in_axis counts a zero-size auto-repetition as 1px wide, as the CSS specification suggests; known finding c04-auto-repeat-one-px-floor); the whole program with its three absolute constants (the 1px substitute, THRESHOLD 0.01, THRESHOLD 0.000001) taken as parameters (GridTheta.gridAlgT, equal to the grid program at the real constants: C04Grid.gridAlgT_real) is UNCONDITIONALLY homogeneous jointly in lengths and constants (C04Grid.grid_homogeneous_joint), so these are the only absolute lengths in the grid algorithm; the run of the scaled container is the scaled run IF AND ONLY IF the original run does not change when the three constants are divided by k (C04Grid.grid_homogeneous_run_iff, decidable condition ConstFree); statically: homogeneous on containers all of whose tracks are fixed-size (C04Grid.grid_homogeneous_partial). Scalable (Style Rat) of Model/Scale.lean scales Style.grid too — the lengths inside grid_template_rows/columns and grid_auto_rows/columns: fixed track sizes, fit-content(px) arguments, minmax bounds; not percentages, fr factors, repetition counts, placements (C04Grid.scale_scales_grid, scale_scales_grid_tracks) — and every grid theorem is stated with that one scale (C04.gscale of the lemma files is an abbreviation of it: C04Grid.gscale_eq_scale). The tree theorem is lifted to ALL trees — block, flexbox and grid containers, leaves, hidden subtrees; cache-free evaluator, the dispatch of TaffyTree — in the two strongest true forms (Props/C04Tree.lean, via the relational tree theorem C04Tree.tree_homogeneous_rel: two families of algorithms, one per side, related under scaling, C04.AlgsHomRel; Lemmas/ScaleEvalRel.lean): (a) UNCONDITIONAL, C04Tree.tree_homogeneous_joint_all_trees: for every tree, k > 0 and constants, the evaluator with the grid constants scaled by k on the k-scaled tree yields the k-scaled output and the k-scaled layouts of all nodes; at the real constants (C04Tree.tree_homogeneous_real_constants) the layout of the scaled tree computed with k·1, k·0.01, k·0.000001 is the scaled REAL layout, so the three constants are the only absolute lengths in the four layout algorithms; (b) partial, C04Tree.tree_homogeneous_all_trees_partial: for the REAL algorithms on both sides, on every tree all of whose grid containers with children outside display:none subtrees satisfy the static, decidable, input-independent condition C04Tree.GridFixedS (tree predicate C04Tree.GridFixedTree, decided by gridFixedTreeB; GridFixedS implies C04Grid.GridFixed for every input: C04Tree.gridFixedS_gridFixed; every NoGrid tree is a GridFixedTree) the real layout of the scaled tree is the scaled layout; what is missing is exactly the grid containers with intrinsic, flexible, percentage or implicit auto tracks or a zero-size auto-repetition, where the statement is false also at the tree level (C04Tree.tree_not_homogeneous_real, C04Tree.realAlgs_not_homogeneous). Examples at k = 4 and 1/4 on a tree with a block root, a flexbox child and a fixed-track grid child with items (C04Tree.exTree_layout, exTree_layout_times_4, exTree_layout_div_4) and at k = 16 on a tree with the THRESHOLD witness and an intrinsic grid (C04Tree.wTree_layout, wTree_layout_times_16_joint, wTree_layout_times_16_real). Known findings: grid THRESHOLD constants; 1px floor of zero-size auto-repetitions. No theorem relates f32 to rational arithmetic; with power-of-two factors every f32 operation commutes with the scaling exactly. Axioms: propext, Classical.choice, Quot.sound.',
    "technique": 'Lean 4 equivariance proofs (function level + induction over the evaluator) + metamorphic scaled tree pairs on the real TaffyTree',
    "undischarged": ['AlgsHomogeneous for grid: FALSE (C04Grid.grid_not_homogeneous, C04Grid.grid_not_homogeneous_autorepeat; known findings); proved jointly in lengths and the three absolute constants (C04Grid.grid_homogeneous_joint), run by run under the exact condition C04Grid.ConstFree (C04Grid.grid_homogeneous_run_iff) and statically under C04Grid.GridFixed; at the tree level accordingly: unconditional for all trees jointly in lengths and constants (C04Tree.tree_homogeneous_joint_all_trees), for the real algorithms on trees whose grid containers are fixed-track (C04Tree.tree_homogeneous_all_trees_partial), FALSE for the real algorithms on all trees (C04Tree.tree_not_homogeneous_real)'],
}

# the site table as regenerated Lean data (tier T "structural facts"): Generated/Sites.lean is rewritten from src/compute/** by every
# run; sites_recognised / sites_covered are `decide` proofs over that finite table, the others are facts about the classifier for all sites
C12_SITES_MODULES = ["TaffyVerif.Props.C12Sites"]
C12_SITES = ["C12Sites." + n for n in [
    "sites_recognised", "sites_covered", "raw_copies_read_through_sites", "report_empty", "firstAdd_decomp", "adjusted_sound",
    "used_before_adjustment_not_adjusted", "unadjusted_not_accepted"]]

PROPS["C12"] = {
    "modules": ['TaffyVerif.Props.C12'] + EVALFLEX_C12_MODULES + EVALGRID_C12_MODULES + C12_SITES_MODULES, "theorems": C12_SITES + EVALFLEX_C12 + EVALGRID_C12 + ['C12.core_arith', 'C12.adjustment_context_free', 'C12.core_site_shape', 'C12.core_flex_basis', 'C12.isAuto_invariant', 'C12.leaf_site_equiv', 'C12.root_site_equiv', 'C12.single_leaf_equiv', 'C12.abs_site_equiv_block', 'C12.abs_site_equiv_flex', 'C12.abs_site_equiv_grid', 'C12.abs_call_sites_equiv', 'C12.block_container_site_equiv', 'C12.block_item_site_equiv', 'C12.tree_equiv', 'C12.tree_equiv_init', 'C12.tree_equiv_root', 'C12.leafAlg_blind', 'C12.block_blind', 'C12.boxBlind_modelled', 'C12.tree_equiv_modelled', 'C12.tree_equiv_block_only', 'C12.grid_compressible_cap_site_not_equiv', 'C12.grid_compressible_cap_repaired_equiv'],
    "harness": "C12", "driver": "C12", "monitor": False, "extra_ties": [("EVAL", "EVAL"), ("FLEX", "FLEX"), ("GRID", "GRID")], "extra_tie_cases": 4000,
    "rule": "style trees of 1-12 nodes as for C04 in which half of the nodes are made content-box with length-valued padding/border "
            "(multiples of 1/4, mostly non-zero), no aspect ratio, percentages in size/min/max/flex-basis replaced by lengths or auto, "
            "extra definite lengths (other content-box nodes from the base generator stay ineligible: percentage padding, aspect "
            "ratio, percentage sizes); a random subset (a third of the cases: all) of the eligible nodes is switched: border-box with "
            "every non-auto size/min/max length + padding + border of its axis, flex-basis + the sum along the parent flex "
            "container's main axis (row: horizontal, column: vertical; horizontal when the parent is not a flex container, where "
            "flex-basis is never read). Predicate: all 20 numbers and order of every node's unrounded layout identical in A and B. "
            "All values dyadic (k/4) so that L + padding + border is exact in f32. Fixed first: content-box items with every rewritten "
            "property set in row-flex, column-flex, block and grid containers, all switched. Non-trivial = at least one switched node "
            "has non-zero padding+border and a definite length, and the layout is non-zero.",
    "trusted_base": _PAIRS_TRUSTED + [
        "site-table extractor extract/src/sites.rs (syn, no type information): it lists every zero-argument method call named size/min_size/"
        "max_size/flex_basis/box_sizing in the function bodies of the compiled module tree below src/compute/mod.rs (default features; "
        "cfg(test)/cfg(taffy_verif) items skipped), every struct-literal field initialised with such a bare call (raw copy), and every field "
        "expression naming a raw-copy field in a file that mentions the struct; reads inside macro invocations other than debug_*! (shown to "
        "expand to nothing without the `debug` feature) and destructuring patterns of a raw-copy struct are listed as unparsed, which fails "
        "C12Sites.sites_recognised; a raw-copy struct moved into a function whose file never names the struct type is not followed",
        "Model/SiteTable.lean: the hand-written classifier (which chains count as adjusted / tag-only) and its vocabulary (maybe_resolve, "
        "maybe_apply_aspect_ratio before the adjustment; is_auto/is_some/is_none as tag-only; perform_child_layout returns no style copy)"],
    "assumptions": ["padding/border of switched nodes are lengths (percentages disqualify), values dyadic so sums are exact"],
    "level_text": "Theorems at exact rationals: for an eligible content-box style (length padding/border, no aspect ratio, size/min/max/flex-basis auto or lengths) and its border-box rewrite, every modelled size-reading site computes the same thing — compute_leaf_layout (incl. measure calls), compute_root_layout's parts, the three absolute-positioning copies (child and container side), the block algorithm for its own style and for any subset of switched child styles (equal programs); tree_equiv: with BoxBlind algorithms the two trees evaluate to equal outputs and equal states for every cache implementation, proved outright for trees of block containers and leaves. One unmodelled grid site (compressible replaced items' size cap in grid_item.rs) was found NOT equivalent — witness proved in Lean, replayed on the real code, repaired by a fix commit. On the real code the clause is sampled on tree pairs (random subsets of switched nodes), bit-exact.",
    "level_note": 'proved: ContainerBlind is PROVED for the whole flexbox program (C12Flex.flex_ContainerBlind) and for the whole grid program (C12Grid.grid_ContainerBlind: Model/Grid.lean + GridItem.lean + GridSizing.lean, tied by the GRID correspondence; own style incl. compute_explicit_grid_size_in_axis, and any subset of child styles through GridItem::new, known_dimensions, minimum_contribution with the REPAIRED cap of compressible replaced items, align_and_position_item for in-flow and absolute children), so BoxBlind holds for all four modelled algorithms (C12Grid.boxBlind_all) and the tree theorem holds for ALL trees with no hypothesis left (C12Grid.tree_equiv_all_trees, tree_equiv_root_all_trees). C12.grid_compressible_cap_site_not_equiv remains the witness against the unrepaired code. StyleReadsThroughSites is discharged on the current source by the site table (Generated/Sites.lean, regenerated from src/compute/** on every run): C12Sites.sites_recognised (every read of size/min_size/max_size/flex_basis/box_sizing and of their raw copies is adjusted by the same node\'s padding+border on the same axis before any clamp/max/min, or tag-only, or a raw copy whose reads are) and C12Sites.sites_covered (every read\'s file/function/property is listed with its model function and site theorem). Axioms: propext, Classical.choice, Quot.sound.',
    "technique": 'Lean 4 site-equivalence proofs + induction over the evaluator + extracted site table decided in Lean + metamorphic box-sizing tree pairs on the real TaffyTree',
    "undischarged": [],
}

PROPS["C05"] = {
    "modules": C05_EVAL_MODULES + C17_MODULES + EVALBLOCK_MODULES + EVALFLEX_MODULES + EVALGRID_MODULES, "theorems": C05_EVAL_THEOREMS + ["C17.dispatch_eq"] + EVALBLOCK_C05 + EVALFLEX_C05 + EVALGRID_C05,
    "harness": "C05", "driver": "C05", "monitor": False, "extra_ties": [("EVAL", "EVAL"), ("FLEX", "FLEX"), ("GRID", "GRID")], "extra_tie_cases": 4000,
    "rule": "style trees of 2-12 nodes as for C04, with 1-3 extra non-root nodes forced to display:none (keeping their subtrees, "
            "half of them with explicit grid-row/grid-column lines -5..6 / spans, some absolute, some with sizes and margins); for "
            "EVERY non-root display:none node h: tree B = A with h's subtree replaced by a bare Style{display:None,..DEFAULT} leaf. "
            "Predicate: (i) every node at or below a display:none node of A, and the replacement leaf in B, has an all-zero layout "
            "(order free); (ii) every node outside h's subtree has the identical layout (all 20 numbers and order) in A and B. "
            "Fixed first: hidden grid child with grid-row 5 in an auto-rows-30 grid (grid must stay 30 high; repaired defect) and a "
            "display:none ROOT, recorded as a note (outside the quantifier). Non-trivial = the replaced subtree differed from the bare "
            "leaf and was not itself below a hidden node; distinct = distinct transcripts.",
    "trusted_base": _PAIRS_TRUSTED,
    "assumptions": ["a display:none root is outside the quantifier: compute_root_layout writes the root's style padding/border/"
                    "margin into its layout (size and location stay 0); see the note in the evidence"],
    "level_text": "Theorems over the tree-level evaluator (Model/Eval.lean: compute_child_layout + compute_cached_layout + compute_hidden_layout, any cache implementation, dispatch arms extracted from the source), for every tree, state, input and fuel: hiddenLayout zeroes every layout and clears every cache of the subtree; the invariant 'every display:none child of a box-generating node has an all-zero own layout and everything strictly below a display:none node is all-zero' holds on a fresh tree and is preserved by every evaluation provided the container algorithms only write zero layouts to hidden children (AlgsPHZ); and if the container algorithms' programs do not depend on a hidden child's style beyond display:none (HiddenBlind), replacing a hidden subtree by any other hidden subtree (a bare leaf) yields equal outputs and equal layouts/caches everywhere outside hidden subtrees. On the real code both clauses are checked on generated tree pairs (flex, grid, block parents; hidden nodes with grid lines).",
    "level_note": 'proved for the modelled algorithms: AlgsPHZ and HiddenBlind are named hypotheses about the container algorithms; they are PROVED for the block model (EvalBlock.block_PHZ, block_HiddenBlind) and for the flexbox model (EvalFlex.flex_PHZ, flex_HiddenBlind; Model/Flex.lean, tied by the FLEX correspondence), and for the grid model (EvalGrid.grid_PHZ, grid_HiddenBlind; Model/Grid.lean with placement, track sizing and grid items, tied by the GRID correspondence: get_child_styles_iter filters display:none children before the size estimate and placement, GridItem::new and align_and_position_item read the styles of placed children only, the hidden/absolute loop tests display first), so both clauses hold UNCONDITIONALLY for every style tree (EvalGrid.hidden_zero_all_trees, hidden_invisible_all_trees, …_pass, …_replace). Trusted: Lean kernel; Eval model (tied by the EVAL correspondence on block+flex+grid trees); extractor for the dispatch arms. Axioms: propext, Classical.choice, Quot.sound.',
    "technique": 'Lean 4 simulation proof over the interaction-program evaluator + metamorphic tree pairs on the real TaffyTree',
    "undischarged": [],
}

PROPS["C06"] = {
    "modules": C06_EVAL_MODULES + EVALBLOCK_MODULES + EVALFLEX_C06_MODULES + EVALGRID_C06_MODULES,
    "theorems": C06_EVAL_THEOREMS + EVALBLOCK_C06 + EVALFLEX_C06 + EVALGRID_C06,
    "harness": "C06", "driver": "C06", "monitor": False, "extra_ties": [("EVAL", "EVAL"), ("FLEX", "FLEX"), ("GRID", "GRID")], "extra_tie_cases": 4000,
    "rule": "style trees of 2-12 nodes as for C04, with 1-3 extra non-root nodes forced to position:absolute (random insets incl. "
            "percentages and negatives, a quarter with explicit grid lines, a quarter with auto lines, a third with large sizes); for "
            "EVERY non-root absolute node a with display != none: tree B = A with a's subtree replaced by a bare "
            "Style{position:Absolute,..DEFAULT} leaf. Predicate: every node outside a's subtree has identical location, size, "
            "scrollbar_size, border, padding, margin (content_size and order may differ). A mismatch with a grid parent and a non-auto "
            "grid-row/column on a carries the signature c06-abs-grid-implicit-tracks (a known finding until its repair; now status "
            "fixed, so it is a violation like any other). Fixed first: abs child with grid-row 5 in an auto-rows-30 grid (the "
            "witness of that finding: the container must stay 100 x 30), an abs child with lines far outside the grid in both axes "
            "next to one whose lines exist, and large abs children in block and column-flex containers. "
            "Non-trivial = the neutralised subtree differed from the bare leaf and was not below a hidden node.",
    "trusted_base": _PAIRS_TRUSTED,
    "assumptions": ["a grid container whose run panics is outside the theorems' quantifier (GridAbs.GridAbsCalm): the checked i16 "
                    "arithmetic on an absolutely positioned child's own grid lines can overflow (grid-row: 32767 / span 2), "
                    "EvalGridAbs.grid_not_AbsBlind"],
    "level_text": "Theorems over the tree-level evaluator, for every tree, state, input, fuel and each of the three cache implementations: if the container algorithms' programs are equivalent up to calls/set-layouts addressed to absolutely positioned children and up to the contentSize of the result (AbsBlind), then replacing an absolutely positioned box (style and subtree) by any other absolutely positioned box yields outputs equal up to contentSize and equal order, location, size, scrollbar, border, padding and margin at every node outside the absolute subtrees. On the real code the clause is checked on generated tree pairs; the grid size estimate's dependence on an absolute child's grid lines is the known finding.",
    "level_note": 'partial: AbsBlind is a named hypothesis about the container algorithms; it is PROVED for the block model (EvalBlock.block_AbsBlind) and for the whole flexbox program (EvalFlexAbs.flex_AbsBlind), so on trees of block containers, flexbox containers and leaves (FlexTrees.NoGrid) the clause holds unconditionally (EvalFlexAbs.abs_invisible_*_block_flex_leaf_trees). For the whole grid program (Model/Grid.lean, tied by the GRID correspondence), since the repair of c06-abs-grid-implicit-tracks (absolutely positioned children are filtered out of the grid size estimate; a line of theirs outside the implicit grid is auto: try_into_track_vec_index): the two programs are related up to calls/layouts addressed to absolutely positioned children, up to contentSize and UP TO PANICS for ALL child lists (EvalGridAbs.grid_AbsBlind_upToPanic_partial), hence AbsBlind holds for every pair of runs that cannot panic, whatever the grid lines (grid_AbsBlind_noPanic_partial; decidable sufficient condition grid_AbsBlind_safe = EvalGrid.gridSafeB), and panics included when the lines agree (grid_AbsBlind_partial, grid_AbsBlind_auto); the witness of the repaired finding now satisfies invisibility (w_line: container 30 high; old_witness_invisible). AbsBlind AS STATED is still false of the model (EvalGridAbs.grid_not_AbsBlind): an absolutely positioned child with grid-row 32767 / span 2 overflows i16 when its OWN lines are resolved (a panic of the implementation in a debug build, replayed) and a panicking run lays out nothing. Tree level: the clause holds for ALL trees of leaves, block, flexbox and grid containers in which every grid container cannot panic or has only auto-line absolutely positioned children (EvalGridAbs.abs_invisible_all_trees_calm_partial, abs_invisible_pass_all_trees_calm_partial; GridAbs.GridAbsCalm; follows from the executable check EvalGrid.gridCalmB: abs_invisible_all_trees_gridCalmB; the theorem of before the repair, abs_invisible_all_trees_partial, is a corollary). Trusted: Lean kernel; Eval model. Axioms: propext, Classical.choice, Quot.sound.',
    "technique": 'Lean 4 simulation-up-to proof over the interaction-program evaluator + metamorphic tree pairs on the real TaffyTree',
    "undischarged": ['AbsBlind for grid on runs that panic: AlgAbsBlind gridAlg is FALSE as stated (EvalGridAbs.grid_not_AbsBlind: i16 overflow on an absolutely positioned child\'s own lines, e.g. grid-row 32767 / span 2); proved up to panics for all child lists (grid_AbsBlind_upToPanic_partial), for all runs that cannot panic (grid_AbsBlind_noPanic_partial) and lifted to all trees whose grid containers cannot panic or have only auto-line absolute children (abs_invisible_all_trees_calm_partial)'],
}

PROPS["C09"] = {
    "modules": ["TaffyVerif.Props.C09", "TaffyVerif.Props.C03Tracks", "TaffyVerif.Props.C09Grid"],
    "theorems": [
        "C09.tracks_alternate", "C09.gutter_is_gap", "C09.explicit_count_is_expansion",
        "C09.fixed_track_exact", "C09.gutter_size_is_gap", "C09.distribute_keeps_track_at_limit",
        "C09.fixed_track_exact_witness", "C09.fr_fills_partial", "C09.fr_fill_full_false",
        "C03Tracks.fr_loop_terminates", "C03Tracks.fr_iterates_decrease", "C03Tracks.fr_restart_progress",
        "C03Tracks.fr_divisor_positive", "C03Tracks.auto_repeat_zero_size_total",
        "C03Tracks.auto_repeat_divisor_positive", "C03Tracks.initialize_total",
        "C03Tracks.alignment_divisors_positive", "C03Tracks.distribute_progress", "C03Tracks.distribute_terminates",
        "C03Tracks.maximise_params_wf",
        # the same properties for the WHOLE grid program (Model/Grid.lean), every run / every oracle
        "C09Grid.observation_point", "C09Grid.final_property_for_every_continuation",
        "C09Grid.program_may_assume_final_spec", "C09Grid.track_sizing_refines", "C09Grid.track_sizing_refines_pure",
        "C09Grid.trackSizing2_eq_pure", "C09Grid.refinement_needs_two_lists", "C09Grid.grid_fixed_tracks_exact",
        "C09Grid.grid_gutters_are_gaps", "C09Grid.grid_explicit_count", "C09Grid.grid_fr_fills_partial",
        "C09Grid.grid_fr_fill_full_false",
    ],
    "harness": "C09", "driver": "C09", "monitor": True, "extra_ties": [("GRID", "GRID")], "extra_tie_cases": 1500,
    "rule": "function-level requests through cfg(taffy_verif) hooks: compute_explicit_grid_size_in_axis (real Style through "
            "GridContainerStyle; templates of 0-4 entries mixing px, %, fr, auto, min/max-content, fit-content, minmax(), "
            "repeat(0-3,[..]) incl. empty lists, one or two auto-fill/auto-fit repetitions; inner size none/0/35/../1000; "
            "px and % gaps), initialize_grid_tracks (0-3 negative/positive implicit tracks, grid_auto_* lists of 0-3, random "
            "occupancy for auto-fit collapsing; explicit count from the real function or free), find_size_of_fr (1-5 tracks, "
            "factors 0,.25,.5,.625,1,2,3, colliding base sizes), maximise_tracks/stretch_auto_tracks/align_tracks, and the whole "
            "track_sizing_algorithm on synthetic tracks with 0-3 items whose min-/max-content/minimum contributions are "
            "pre-seeded numbers (spans 1-3, scroll containers, min/max-content/definite available space, min/max sizes); "
            "whole layouts (grid root with 1-4 Fixed-measure leaves, explicit/auto placement, padding/border, all "
            "justify/align-content) observed through DetailedGridInfo: `obs` lines for the monitor plus, for every axis with a "
            "definite container size, a derived `sizing` request whose expected answer is the layout's own track/gutter sizes. "
            "Fixed cases first: the auto-repeat count witness (fix 0b77d7d), the 0.5fr/0.6fr underfill (known finding), the "
            "THRESHOLD-leak witness (fix f6411f1, must be exact now), the zero-size auto-repeat witness (fix f9d2661, 101 tracks). "
            "Non-trivial = produced at least one non-zero track / explicit track; distinct = distinct transcripts.",
    "trusted_base": [
        "hand-written models Model/GridTracksInit.lean (explicit_grid.rs, grid_track.rs, style/grid.rs predicates) and "
        "Model/FrSize.lean (track_sizing.rs: initialize_track_sizes, resolve_intrinsic_track_sizes incl. batching, "
        "distribute_* , flush_*, maximise_tracks, expand_flexible_tracks, find_size_of_fr, stretch_auto_tracks), tied by "
        "bit-exact Float32 comparison of every answer",
        "the items' min-/max-content/minimum contributions are oracle parameters of the model; whole layouts use "
        "Fixed-measure leaves whose contributions the harness computes (replicating GridItem::minimum_contribution)",
        "theorems of part 1 hold for every Num instance; theorems of part 2 are over exact rationals (no theorem relates "
        "f32 rounding to them); Lean Float32 arithmetic, floor/ceil and the saturating u16 cast are assumed IEEE/Rust-like",
    ],
    "assumptions": [
        "calc() lengths are outside the model; set_detailed_grid_info is not modelled: the whole-program theorems "
        "(Props/C09Grid.lean) observe the track vectors right after align_tracks (step 8), i.e. what the item-positioning loop reads",
        "items have zero margins in function-level sizing runs of the pure model (expand_flexible_tracks reads the margin-free "
        "cached max-content contribution); the whole-program theorems need no such assumption: the refinement "
        "(C09Grid.track_sizing_refines) is against the two-list form trackSizing2 of the pure algorithm, which is the pure "
        "algorithm itself when margins are zero or the expansion space is not max-content (track_sizing_refines_pure, "
        "trackSizing2_eq_pure); with the contributions read off the caches in the natural way it is NOT the one-list pure "
        "algorithm (C09Grid.refinement_needs_two_lists, a model witness)",
        "`x as u16` truncation of list lengths is exact (fewer than 65536 template entries / repeated tracks)",
        "the fill clause is evaluated on the implementation with tolerance 2^-21·(n+8)·extent (n tracks; f32 additions "
        "accumulate rounding), everything else exactly",
    ],
    "undischarged": [
        "fixed_track_exact / C09Grid.grid_fixed_tracks_exact are for length-valued min = max; the resolved size of percentage "
        "tracks/gaps (re-resolved in mod.rs step 7) is not covered (grid_gutters_are_gaps gives their sizing functions only)",
        "C09Grid.grid_fr_fills_partial keeps the side conditions of fr_fills_partial (non-negative base sizes and factors of "
        "the tracks entering expand_flexible_tracks, positive free space, surviving factor sum >= 1), stated about the pure "
        "algorithm's intermediate state for the run's contribution data",
        "distribute_terminates is proved for closures with non-negative proportions that do not read "
        "item_incurred_increase; the flex-factor variant therefore assumes non-negative fr values; the item batcher's fuel "
        "(#items + 1, one batch consumes at least one item) is not a theorem",
        "u16 overflow of the explicit track count for more than 65535 tracks (huge containers) remains a debug-build panic "
        "(model outcome `overflow`); the generators stay below it",
    ],
    "level_text": "Track initialisation is proved for every template, gap, auto-track list and occupancy predicate and every Num "
                  "instance: the vector is gutter,track,…,gutter of odd length with collapsed zero outer gutters, inner gutters carry "
                  "the gap (or are the collapsed gutter of a collapsed auto-fit track), and the number of explicit tracks emitted "
                  "equals the count compute_explicit_grid_size_in_axis returns (incl. repeat(n,[…]) beside one auto-repeat). "
                  "Over exact rationals: find_size_of_fr terminates within #tracks+1 iterations through its validity test, the "
                  "iterates decrease, distribute_space_up_to_limits terminates within #tracks+1 iterations (each iteration uses the "
                  "space up or retires the arg-min track), a track or gutter with min = max = the same length ends with exactly "
                  "that size after the whole track_sizing_algorithm for every oracle (fixed_track_exact, end to end since fix f6411f1), and when the tracks still flexible in the last iteration have factor sum ≥ 1 the expanded "
                  "tracks fill the definite space. The full fill clause is refuted on a model witness that is replayed on the "
                  "implementation (known finding); the two defects found here (THRESHOLD leak, zero-size auto-repeat) are fixed and "
                  "their witnesses are fixed cases. The model is tied to the code by bit-exact comparison at function level and on whole layouts. "
                  "WHOLE PROGRAM (Props/C09Grid.lean, about Model/Grid.lean = compute_grid_layout as one interaction program, every style, "
                  "child styles, input and every oracle answering the child queries): compute_grid_layout is, by rfl, the program up to "
                  "the state after align_tracks followed by step 9 (observation_point); on every run that reaches that state every "
                  "track or gutter with min = max = a length has exactly that base size (grid_fixed_tracks_exact, through both runs per "
                  "axis, set_gutter_adjustment, the step-7 re-resolution and align_tracks), both vectors alternate gutter/track with "
                  "zero collapsed outer gutters and inner gutters carrying the gap (exactly the gap for a length gap; "
                  "grid_gutters_are_gaps), the explicit count of each axis is what compute_explicit_grid_size_in_axis returned and that "
                  "many explicit tracks were emitted (grid_explicit_count), and with a definite own size the tracks and gutters fill "
                  "the content box under the hypothesis of fr_fills_partial (grid_fr_fills_partial; the unconditional clause is refuted "
                  "on a whole-program run, grid_fr_fill_full_false). All lifted through one refinement lemma: every run of the track "
                  "sizing program returns the tracks the pure algorithm computes from the contribution data the run leaves in the items' "
                  "caches (track_sizing_refines).",
    "level_note": "partial: the fill clause only under the stated hypothesis (fr underfill is a known finding); intrinsic sizing is "
                  "modelled and tied but has no theorems besides fixed_track_exact, the refinement program ⊑ pure and termination; "
                  "align_tracks is shown to change offsets only; sizes of percentage gaps/tracks are not covered; the whole-program "
                  "theorems are about the hand-written program model Model/Grid.lean (tied by the GRID correspondence run). Trusted: Lean kernel; hand-written models "
                  "(validated by the correspondence run, Float32 bit-exact); Lean Float32 = IEEE binary32. Axioms: propext, "
                  "Classical.choice, Quot.sound.",
    "technique": "Lean 4 theorems (induction over templates/track lists, monotone-iterate termination argument, kernel-evaluated "
                 "witnesses) about a hand-written model + differential correspondence through cfg-guarded hooks and DetailedGridInfo",
}

# ---------------------------------------------------------------------------------------------------------
# Tier T, typed translation (extract/src/{expr,stmt,emit,lean}.rs + one module per source file): small pure functions of
# cache.rs, available_space.rs, layout.rs, geometry.rs, style_helpers.rs, util/{sys,math,resolve}.rs (first batch) are translated into
# Generated/*.lean on every run; Props/Tie*.lean prove generated = hand-written model definition, for every [Num α].
# These equalities are obligations of every check whose theorems are about those model definitions.
TIE_CACHE = ["TieCache." + t for t in (
    "cache_size_eq optEq_eq avEq_minContent is_roughly_equal_eq slot_eq get_final_compatible_eq "
    "get_measure_compatible_eq from_outer_size_eq new_eq get_eq store_eq clear_eq is_empty_eq").split()]
TIE_LAYOUT = ["TieLayout." + t for t in (
    "f32_max_eq f32_min_eq abs_eq round_eq floor_eq ceil_eq margin_zero_eq from_margin_eq collapse_with_margin_eq "
    "collapse_with_set_eq margin_resolve_eq hidden_eq default_eq from_sizes_and_baselines_eq from_sizes_eq "
    "from_outer_size_eq layout_with_order_eq layout_new_eq horizontal_axis_sum_eq vertical_axis_sum_eq sum_axes_eq "
    "size_f32_max_eq size_f32_min_eq maybe_apply_aspect_ratio_eq size_unwrap_or_eq size_or_eq both_axis_defined_eq "
    "size_zero_eq size_ZERO_eq size_NONE_eq rect_zero_eq rect_ZERO_eq into_option_eq maybe_set_eq is_definite_eq "
    "av_unwrap_or_eq").split()]
TIE_MAYBEMATH = (["TieMaybeMath.%s_%s_eq" % (p, o) for p in ("oo", "of", "fo", "af", "ao")
                  for o in ("min", "max", "clamp", "add", "sub")]
                 + ["TieMaybeMath.size_%s_eq" % l for l in (
                     "oo_add oo_sub oo_max oo_min oo_clamp of_add of_sub of_max fo_clamp fo_max fo_min ao_sub af_sub").split()])
TIE_RESOLVE = ["TieResolve." + t for t in (
    "lp_maybe_resolve_eq lpa_maybe_resolve_eq dim_maybe_resolve_eq lp_resolve_or_zero_eq lpa_resolve_or_zero_eq "
    "dim_resolve_or_zero_eq lpa_f32_maybe_resolve_eq dim_f32_maybe_resolve_eq size_dim_maybe_resolve_eq "
    "size_lp_resolve_or_zero_eq rect_lp_opt_resolve_or_zero_eq rect_lpa_opt_resolve_or_zero_eq "
    "rect_lp_size_resolve_or_zero_eq rect_lpa_size_resolve_or_zero_eq").split()]
TIE_GRID = ["TieGrid." + t for t in (
    "into_origin_zero_line_eq oz_add_eq oz_sub_eq into_track_vec_index_eq try_into_track_vec_index_eq implied_negative_eq "
    "implied_positive_eq u16_then_usize track_counts_len_eq "
    "implicit_start_line_eq implicit_end_line_eq oz_line_to_next_track_eq track_to_prev_oz_line_eq "
    "into_origin_zero_placement_eq into_origin_zero_eq indefinite_span_eq is_definite_oz_eq is_definite_raw_eq "
    "resolve_definite_grid_lines_eq resolve_indefinite_grid_tracks_eq").split()]
# second batch of the typed translation (extract/src/{alignment,content,axes,style,compute}.rs, Ty::Var for generic impls,
# `&mut` first parameters, destructuring assignment, `usize as f32`, trait constants, length constructors):
# compute/common/{alignment,content_size}.rs, the FlexDirection / AbstractAxis accessors of geometry.rs + impl FlexDirection,
# LayoutInput::HIDDEN, style/mod.rs (Style::DEFAULT, impl Overflow, the getters of the style traits for Style, the length
# constructors), compute/mod.rs (round_layout_inner's node block, compute_hidden_layout's constants)
TIE_ALIGNMENT = ["TieAlignment." + t for t in (
    "apply_alignment_fallback_eq compute_alignment_offset_eq fallback_spaceBetween_two_items "
    "usizeSubTrunc_exact").split()]
TIE_CONTENT = ["TieContent." + t for t in (
    "compute_content_size_contribution_eq").split()]
TIE_AXES = ["TieAxes." + t for t in (
    "is_row_eq is_column_eq is_reverse_eq main_axis_sum_eq cross_axis_sum_eq main_start_eq main_end_eq "
    "cross_start_eq cross_end_eq size_main_eq size_cross_eq set_main_eq set_cross_eq with_main_eq with_cross_eq "
    "from_cross_eq point_transpose_eq point_main_eq point_cross_eq").split()]
TIE_GRIDAXES = ["TieGridAxes." + t for t in (
    "axis_other_eq size_get_eq size_set_eq point_get_eq").split()]
TIE_INPUT = ["TieInput." + t for t in (
    "layout_input_hidden_eq size_max_content_eq size_min_content_eq line_false_eq line_true_eq").split()]
TIE_STYLE = ["TieStyle." + t for t in (
    "default_eq display_default_eq is_scroll_container_eq maybe_into_automatic_min_size_eq lp_length_eq "
    "lp_percent_eq lp_zero_eq lpa_length_eq lpa_percent_eq lpa_auto_eq lpa_AUTO_eq lpa_zero_eq dim_length_eq "
    "dim_percent_eq dim_auto_eq dim_AUTO_eq dim_zero_eq rect_lpa_auto_eq rect_lpa_zero_eq rect_lp_zero_eq "
    "size_dim_auto_eq size_lp_zero_eq box_generation_mode_none_eq box_generation_mode_default_eq is_block_eq "
    "is_compressible_replaced_eq box_sizing_eq overflow_eq scrollbar_width_eq position_eq inset_eq size_eq "
    "min_size_eq max_size_eq aspect_ratio_eq margin_eq padding_eq border_eq text_align_eq is_table_eq "
    "flex_direction_eq flex_wrap_eq flex_gap_eq flex_align_content_eq flex_align_items_eq "
    "flex_justify_content_eq flex_basis_eq flex_grow_eq flex_shrink_eq flex_align_self_eq grid_gap_eq "
    "grid_align_content_eq grid_justify_content_eq grid_align_items_eq grid_justify_items_eq grid_align_self_eq "
    "grid_justify_self_eq").split()]
TIE_COMPUTE = ["TieCompute." + t for t in (
    "round_content_size_eq round_layout_inner_node_eq roundInner_unfold round_layout_start_eq "
    "hidden_node_layout_eq hidden_child_input_eq hidden_output_eq "
    # compute_cached_layout (interaction form, Generated/Root.lean)
    "compute_cached_layout_eq compute_cached_layout_run evalNodeWith_is_compute_cached_layout").split()]
# third batch: functions that call closures / the tree, translated in interaction form (extract/src/{treemod,leafmod,rootmod}.rs;
# fragment widened by: closure parameters (pure `Fn` ↦ Lean function, opaque ↦ a node of the generated program type, tree-taking ↦
# sub-program), `&impl CoreStyle`, `tree: &mut impl LayoutPartialTree` (trait methods ↦ nodes, read off tree/traits.rs), struct
# patterns, `if let`, `matches!` with a guard, `+=`, operator impls of geometry.rs, type-variable unification at call sites,
# `unreachable!()` in an argument ↦ `Prog.unreachable`): compute/leaf.rs in full, compute_root_layout, compute_cached_layout,
# LayoutPartialTreeExt::perform_child_layout
TIE_LEAF = ["TieLeaf." + t for t in (
    "rect_add_eq size_add_eq size_map_eq size_zip_map_eq point_map_eq from_f32_eq from_option_eq map_definite_value_eq "
    "fo_max_map_some point_NONE_eq compute_leaf_layout_prog_eq run_modelProg compute_leaf_layout_eq leafAlg_eq").split()]
TIE_LAYOUT_TREE = ["TieLayoutTree." + t for t in (
    "run_bind perform_child_layout_eq perform_child_layout_ProgM").split()]
TIE_ROOT = ["TieRoot." + t for t in (
    "size_into_options_eq compute_root_layout_eq compute_root_layout_run layoutSingleLeafWith_eq").split()]
TIE_TRUSTED = ("tier T: Generated/{Cache,AvailableSpace,LayoutTypes,Geometry,Sys,MaybeMath,Resolve,GridCoords,Alignment,ContentSize,Axes,GridAxes,Style,Compute,Leaf,Tree,Root}.lean are translated from the Rust "
               "source on every run (verif/extract, typed syn-based translator, my code); Props/Tie*.lean prove each generated "
               "definition equal to the hand-written model definition for every [Num α]; style lengths are translated against the "
               "abstract LP/LPA inductives (tag ↦ constructor, justified by C18) with the calc arm dropped; grid integer code is translated "
               "into the Outcome monad with every arithmetic operation and cast checked (same convention as Model/GridPlacement.lean); "
               "length constructors are translated to the abstract constructors after CompactLength::{length,percent,auto,ZERO,AUTO} have been "
               "compared with the source; the one usize subtraction of compute_alignment_offset is translated as truncated subtraction "
               "(TieAlignment.fallback_spaceBetween_two_items: unreachable underflow); round_layout / compute_hidden_layout: the tree walk is "
               "compared token by token, the per-node block / the three constants are translated; compute_leaf_layout, compute_root_layout, "
               "compute_cached_layout and perform_child_layout are translated in interaction form (calls of the measure closure / of the tree's trait "
               "methods become nodes of a generated program type, in the Rust order; the measure function is modelled as a pure function, "
               "the calc resolver is dropped, the debug_log! macros are checked to be cfg-gated no-ops)")


def _add_tie(pid, module, theorems):
    c = PROPS[pid]
    c["modules"] = list(c["modules"]) + [module]
    c["theorems"] = list(c["theorems"]) + [t for t in theorems if t not in c["theorems"]]
    if TIE_TRUSTED not in c.get("trusted_base", []):
        c["trusted_base"] = list(c.get("trusted_base", [])) + [TIE_TRUSTED]


for _pid in ("C02", "C01", "C17"):
    _add_tie(_pid, "TaffyVerif.Props.TieCache", TIE_CACHE)
for _pid in ("C10", "C11", "C19", "C04", "C12"):
    _add_tie(_pid, "TaffyVerif.Props.TieLayout", TIE_LAYOUT)
    _add_tie(_pid, "TaffyVerif.Props.TieMaybeMath", TIE_MAYBEMATH)
    _add_tie(_pid, "TaffyVerif.Props.TieResolve", TIE_RESOLVE)
for _pid in ("C08", "C03"):
    _add_tie(_pid, "TaffyVerif.Props.TieGrid", TIE_GRID)
# alignment (justify-content / align-content of the flex program, align_tracks of the grid program, and the checks stated on them)
for _pid in ("C07", "C09", "C11", "C04", "C12"):
    _add_tie(_pid, "TaffyVerif.Props.TieAlignment", TIE_ALIGNMENT)
# content-size contribution (block, flex and grid programs)
for _pid in ("C10", "C06"):
    _add_tie(_pid, "TaffyVerif.Props.TieContent", TIE_CONTENT)
# main/cross accessors of the flex program (and of the absolute-position code shared with it)
for _pid in ("C07", "C04", "C12", "C05", "C06"):
    _add_tie(_pid, "TaffyVerif.Props.TieAxes", TIE_AXES)
# AbstractAxis accessors of the grid program
for _pid in ("C09", "C03"):
    _add_tie(_pid, "TaffyVerif.Props.TieGridAxes", TIE_GRIDAXES)
# LayoutInput::HIDDEN and the RunMode / SizingMode / RequestedAxis enums
for _pid in ("C17", "C05"):
    _add_tie(_pid, "TaffyVerif.Props.TieInput", TIE_INPUT)
# Style::DEFAULT, the style getters, impl Overflow, the length constructors
for _pid in ("C19", "C10", "C11", "C12", "C04", "C07", "C05", "C17"):
    _add_tie(_pid, "TaffyVerif.Props.TieStyle", TIE_STYLE)
# the per-node rounding block (C13) and compute_hidden_layout's constants (C05, C17)
for _pid in ("C13", "C05", "C17", "C01"):
    _add_tie(_pid, "TaffyVerif.Props.TieCompute", TIE_COMPUTE)
# compute_leaf_layout in full (the model C19's theorems are about; the evaluator's leaf algorithm), compute_root_layout, the tree traits
for _pid in ("C19", "C17", "C01", "C05"):
    _add_tie(_pid, "TaffyVerif.Props.TieLeaf", TIE_LEAF)
    _add_tie(_pid, "TaffyVerif.Props.TieLayoutTree", TIE_LAYOUT_TREE)
    _add_tie(_pid, "TaffyVerif.Props.TieRoot", TIE_ROOT)

# fourth batch (extract/src/{loops,flexline}.rs): slices / Vec as lists, iterator chains, `for` over `&mut [T]` as map / fold, filtered
# mutable views, `loop { if c { break; } … }` under fuel: the per-line functions of compute/flexbox.rs -> Generated/FlexLine.lean.
# `resolve_flexible_lengths` in full (the freeze loop C07 / C03 / C04 are about), `sum_axis_gaps`, `FlexItem::is_scroll_container`,
# `distribute_remaining_free_space`; Props/TieFlexLine.lean proves them equal to Model/FlexLine.lean through the main-axis projection.
TIE_FLEXLINE = ["TieFlexLine." + t for t in (
    "sum_f32_eq sum_axis_gaps_eq is_scroll_container_eq fold_mut_where_split loop_body_spec rfl_spec loop_body_toM "
    "loop_body_with loop_body_Fr loop_eq resolve_flexible_lengths_eq resolveFlexibleLengthsLine_eq "
    # distribute_remaining_free_space (auto margins, justify-content through the translated alignment helpers)
    "distribute_spec apply_alignment_fallback_eq compute_alignment_offset_eq gDistributeLine_toM gDistributeLine_Fr "
    "gDistributeLine_with distribute_remaining_free_space_eq computeConstants_isRow distribute_needs_isRow_witness").split()]
TIE_FLEXLINE_TRUSTED = ("tier T (flex-line functions): Generated/FlexLine.lean is translated from src/compute/flexbox.rs on every run "
                        "(verif/extract/src/{loops,flexline}.rs): a slice is a list; `for x in xs.iter_mut()` is List.map / List.foldl; a filtered "
                        "mutable view `xs.iter_mut().filter(p).collect()` is (xs, p) (a loop over it updates the elements satisfying p; using it "
                        "after a loop wrote a field p reads is an extraction error); `iter().sum::<f32>()` folds + from -0.0; the freeze `loop` "
                        "runs under an iteration bound (`none` = not finished; C03Flex.freeze_loop_terminates bounds it by the item count); "
                        "struct FlexItem / FlexLine / AlgoConstants are compared field by field with the records of Model/Flex.lean "
                        "(`node: NodeId` is the child index). Props/TieFlexLine.lean proves resolve_flexible_lengths on full FlexItems equal to "
                        "FlexLine.resolveFlexibleLengths on the main-axis projection, written back (zipBack), for every [Num α], fuel and input, and "
                        "distribute_remaining_free_space equal to FlexModel.distributeLine on every line under isRow = dir.isRow (set by compute_constants)")
for _pid in ("C07", "C03", "C04"):
    _add_tie(_pid, "TaffyVerif.Props.TieFlexLine", TIE_FLEXLINE)
    PROPS[_pid]["trusted_base"] = list(PROPS[_pid].get("trusted_base", [])) + [TIE_FLEXLINE_TRUSTED]

# ext-Q (extract/src/{flexmod,flexwhile}.rs -> Generated/Flex.lean): the pure line / cross-axis functions of compute/flexbox.rs translated
# from the source: collect_flex_lines (two `while` loops over split_at_mut slices under fuel, enumerate().find(..) with a running
# accumulator), calculate_cross_size (flex_lines[0] read / written: Option, none = the index panic), handle_align_content_stretch,
# resolve_cross_axis_auto_margins + align_flex_items_along_cross_axis, determine_container_cross_size (a &mut parameter in third position,
# returned beside the value), align_flex_lines_per_align_content, determine_available_space, determine_used_cross_size, compute_constants,
# generate_anonymous_flex_items (tree = style lookup + calc resolver). Props/TieFlex.lean proves each equal to the definition of Model/Flex.lean.
TIE_FLEX = ["TieFlex." + t for t in (
    "align_flex_items_along_cross_axis_eq max_baseline_eq split_at_mut_ok while_min_eq breakIndex_cons breakIndex_ge breakIndex_le "
    "breakIndex_pos find_breakIndex while_body_2_eq while_2_eq collect_flex_lines_eq calculate_cross_size_eq "
    "calculate_cross_size_nil_panics collectFlexLines_ne_nil handle_align_content_stretch_eq resolve_cross_axis_auto_margins_eq "
    "resolve_cross_needs_isRow_witness determine_container_cross_size_eq mapIdx_alignForward "
    "align_flex_lines_per_align_content_eq "
    # functions that take the tree only to read child styles / as the calc resolver
    "is_auto_eq determine_available_space_eq determine_used_cross_size_eq scrollbar_gutter_shape compute_constants_eq "
    "rect_map_eq rect_zip_size_eq generate_item_eq generate_filters_eq generate_chain_eq generate_anonymous_flex_items_eq "
    "generate_anonymous_flex_items_childStyles calculate_cross_size_no_panic "
    # compute_flexbox_layout: the statements from the style read to styled_based_known_dimensions
    "zip_minMaxDefinite styled_based_known_dimensions_eq").split()]
TIE_FLEX_TRUSTED = ("tier T (flex line / cross-axis functions): Generated/Flex.lean is translated from src/compute/flexbox.rs on every run "
                    "(verif/extract/src/{flexmod,flexwhile}.rs on top of loops.rs): `while c { .. }` is <f>.while under an iteration bound over the "
                    "tuple of the outer locals its body assigns (none = a panic in the body or not finished); `split_at_mut(n)` answers none "
                    "beyond the length; `v.push(x)` is v ++ [x], `new_vec_with_capacity` is []; `enumerate().find(closure)` whose closure "
                    "updates one captured local is enumerate_find_state (visit in order, thread the local, stop at the first true); "
                    "`xs[0]` read / written is a match on the list (`[]` = none: Rust panics); `iter_mut().for_each(|x| ..)` is List.map; a `&T` "
                    "argument of a translated pure function may be the `&mut` loop variable; a `&mut` parameter is returned (beside the value). "
                    "Props/TieFlex.lean proves collect_flex_lines (for every fuel >= the number of items: some of the model's lines), "
                    "calculate_cross_size (on non-empty lines or with is_wrap; the panic on [] is stated and shown not to arise), "
                    "handle_align_content_stretch, determine_container_cross_size, align_flex_lines_per_align_content, "
                    "align_flex_items_along_cross_axis and resolve_cross_axis_auto_margins (under isRow = dir.isRow, set by compute_constants) "
                    "equal to the definitions of Model/Flex.lean for every [Num α] and all arguments; likewise determine_available_space, "
                    "determine_used_cross_size, compute_constants and generate_anonymous_flex_items, in which the tree parameter is used only "
                    "as the calc resolver (dropped) and to read child styles (`tree.get_flexbox_child_style(n)` is `styleOf n`; "
                    "`tree.child_ids(node)` is 0 .. child_count: a child is addressed by its index; the iterator chain of "
                    "generate_anonymous_flex_items is compared token by token, its two filter predicates and its item closure are translated; "
                    "`index as u32` is `index`); Dimension::is_auto is read off `self.0.is_auto()` / `tag() == AUTO_TAG`; Rect::map, "
                    "Rect::zip_size, TaffyZero at Option<f32> are translated from geometry.rs / style_helpers.rs; of compute_flexbox_layout the "
                    "statements from the style read to styled_based_known_dimensions are translated as a function of (style, inputs) and the "
                    "statements after them (ComputeSize short-circuit, call of compute_preliminary) are compared token by token")
for _pid in ("C07", "C04", "C12", "C06"):
    _add_tie(_pid, "TaffyVerif.Props.TieFlex", TIE_FLEX)
    PROPS[_pid]["trusted_base"] = list(PROPS[_pid].get("trusted_base", [])) + [TIE_FLEX_TRUSTED]
# fifth batch, block.rs (extract/src/blockmod.rs -> Generated/Block.lean): functions that talk to the tree inside loops over the item list,
# in interaction form over Gen.Tree.Prog at NodeId := Nat (the child's index): a `for` whose body performs interactions is
# Gen.Block.for_mut / for_fold applied to the body as a program-valued step function of (tuple of the outer locals, item).
# Props/TieBlock.lean proves generated = toGen (hand-written ProgM program of Model/Block.lean): same calls in the same order with the
# same inputs, same layouts set, same results.
TIE_BLOCK = ["TieBlock." + t for t in (
    "toGen_bind bind_ret bind_assoc resolve_to_option_eq size_sub_eq maybeResolve_some size_dim_f32_maybe_resolve_eq "
    # the margin-collapsing loop (C10), the content-based width loop
    "flowLoop_cons for_mut_flow perform_final_layout_on_in_flow_children_eq contentWidthLoop_cons for_fold_width "
    "determine_content_based_container_width_eq "
    # the item list (C05, C12), the absolute pass (C11, C06)
    "map_enum_filter generate_item_list_eq absLoop_cons for_fold_abs perform_absolute_layout_on_absolute_children_eq "
    # the whole algorithm: compute_inner (with the hidden-children loop) and the entry point compute_block_layout
    "allResG_toGen allRes_bind bindG_congr_all bindG_congr flowLoop_ids performFinal_ids absLoop_congr generateItemsFrom_ids "
    "styleOf_ok for_fold_hidden overflow_match compute_inner_eq compute_block_layout_eq").split()]
TIE_BLOCK_TRUSTED = ("tier T (block.rs): Generated/Block.lean is translated from src/compute/block.rs on every run (verif/extract/src/blockmod.rs "
                     "on top of expr.rs / stmt.rs): interaction form over Gen.Tree.Prog with NodeId := Nat (the child's index, as in "
                     "Model/Block.lean); struct BlockItem is compared field by field with BlockModel.BlockItem; a `for` over the item list "
                     "whose body calls the tree is Gen.Block.for_mut (elements updated) / for_fold applied to the body as a step function of "
                     "(the tuple of outer locals the body assigns, the element), `.filter(p)` guards the step, `continue` ends it; an `if` / "
                     "`match` statement without interactions is the value of the tuple of locals it assigns; `opt.unwrap_or_else(|| {..tree..})` "
                     "is a bind of `match opt with | some v => ret v | none => <closure body>`; the `&mut [BlockItem]` parameter is returned "
                     "with the result; the pure reads of the tree (get_block_child_style, child_ids, child_count, get_child_id) are leading "
                     "function parameters of the generated definition (Model/Block.lean takes the list of child styles); iterator chains "
                     "(map / filter / enumerate / all / fold / collect with tuple-pattern closures) are list functions; `x.is_none() || .. x.unwrap() ..` "
                     "is a match on x; `<position> as u32` is the identity (Gen.Block.as_u32: fewer than 2^32 children); Rect::map, "
                     "Rect::zip_size, Size::map_width/map_height, Size - Size, Size<Dimension>::maybe_resolve at an f32 context and "
                     "LengthPercentageAuto::resolve_to_option are translated from geometry.rs / resolve.rs / dimension.rs into the same file. "
                     "Props/TieBlock.lean proves generate_item_list (children addressed 0..n), determine_content_based_container_width, "
                     "perform_final_layout_on_in_flow_children and perform_absolute_layout_on_absolute_children equal to "
                     "BlockModel.generateItemList / contentWidthLoop / performFinalLayoutOnInFlowChildren / absLoop read as generated programs "
                     "(toGen), and compute_inner / compute_block_layout (all of block.rs) equal to BlockModel.computeInner / computeBlockLayout on "
                     "the container's style and the list of child styles, under the addressing of Model/Block.lean (child_count node = n, "
                     "child_ids node = 0..n, get_child_id node i = i), for every [Num α] and all arguments; `for order in 0..len` is "
                     "for_fold over List.range len, a call f(tree, ..) of a function of the file is a bind of its translation (hoisted out of "
                     "an expression whose other operands are pure), `T { f: v, ..base }` is a record update")
for _pid in ("C10", "C11", "C06", "C05", "C12"):
    _add_tie(_pid, "TaffyVerif.Props.TieBlock", TIE_BLOCK)
    PROPS[_pid]["trusted_base"] = list(PROPS[_pid].get("trusted_base", [])) + [TIE_BLOCK_TRUSTED]

# flexbox.rs, the functions that call the tree (extract/src/flexprog.rs -> Generated/FlexProg.lean), interaction form as for block.rs;
# Props/TieFlexProg.lean proves generated = toGen (ProgM program of Model/Flex.lean)
TIE_FLEXPROG = ["TieFlexProg." + t for t in (
    "main_axis_eq measure_child_size_eq for_mut_unit size_main_map_some main_av_eq toGen_pure determine_flex_base_size_eq "
    "measure_child_size_cross_eq determine_hypothetical_cross_size_eq determine_hypothetical_cross_size_lines_eq baselineItems_cons calculate_children_base_lines_eq").split()]
TIE_FLEXPROG_TRUSTED = ("tier T (flexbox.rs, tree-calling functions): Generated/FlexProg.lean is translated from src/compute/flexbox.rs, "
                        "src/tree/traits.rs (measure_child_size), src/geometry.rs (AbsoluteAxis, Size::get_abs, From<Point> for Size), "
                        "src/style/flex.rs (FlexDirection::main_axis) and src/tree/layout.rs (From<AbsoluteAxis> for RequestedAxis) on every run "
                        "(verif/extract/src/flexprog.rs on top of blockmod.rs): interaction form over Gen.Tree.Prog with NodeId := Nat; before "
                        "translation the loop body of determine_flex_base_size is rewritten by the syntactically checked rules R1 (labelled block "
                        "with an early `break 'l v` => unwrap_or_else), R2/R2' (an eagerly evaluated block argument of unwrap_or / a block "
                        "initialiser is hoisted in front of the statement; hoisted names must not occur later), R3 (eta-expansion of a function "
                        "path passed to map), and the body of measure_child_size by R4 (`self.m(..).chain` => `let out__ = self.m(..); out__.chain`); "
                        "get_flexbox_child_style is a leading function parameter. Props/TieFlexProg.lean proves measure_child_size at "
                        "dir.main_axis() / dir.cross_axis() equal to ProgM.measureChildSize .. dir.isRow / (!dir.isRow), determine_flex_base_size equal to "
                        "FlexModel.determineFlexBaseSize, determine_hypothetical_cross_size (one line) equal to hypotheticalCrossItems on the "
                        "line's items, calculate_children_base_lines (nested for_mut, early return, continue) equal to "
                        "FlexModel.calculateChildrenBaseLines, each read as a generated program (toGen), for every [Num α] and all arguments; "
                        "further rewritings: R5 (`let x = E.into();` with E pure: dropped and inlined at the uses, where the target type of "
                        "into is known; f32.into() is `some` at Option<f32> and AvailableSpace::from at AvailableSpace), R6 (`for x in P` over a "
                        "`&mut [T]` parameter is `P.iter_mut()`), R4 also inside the closure of an unwrap_or_else")
for _pid in ("C07", "C04", "C12", "C06", "C05", "C16"):
    _add_tie(_pid, "TaffyVerif.Props.TieFlexProg", TIE_FLEXPROG)
    PROPS[_pid]["trusted_base"] = list(PROPS[_pid].get("trusted_base", [])) + [TIE_FLEXPROG_TRUSTED]

# flexbox.rs, determine_container_main_size IN PART (the arm that measures the child): Props/TieFlexProg2.lean
TIE_FLEXPROG2 = ["TieFlexProg2." + t for t in (
    "intrinsicItem_contentArm determine_container_main_size_content_arm_eq calculate_flex_item_eq for_mut_state toGen_layoutItems "
    "calculate_layout_line_eq toGen_layoutLines final_layout_pass_eq compute_preliminary_hidden_loop_eq").split()]
TIE_FLEXPROG2_TRUSTED = ("tier T (flexbox.rs, determine_container_main_size IN PART): only the `_ => { .. }` arm of `match (min_main_size, "
                         "style_preferred, max_main_size)` (the one place where the function calls the tree) is translated, as a function of "
                         "(constants, available_space, item) preceded by the `let`s of the enclosing function it reads (dir, "
                         "main_content_box_inset, style_min, style_max: each declared exactly once, immutable, over constants / item only; the arm "
                         "writes no variable of the enclosing function), after R2' and R7 (`let x = tree.m(..) OP rest` => `let out__ = tree.m(..); "
                         "let x = out__ OP rest`); Props/TieFlexProg2.lean proves it equal to the corresponding part of FlexModel.intrinsicItem "
                         "(contentArm; intrinsicItem_contentArm shows by rfl that intrinsicItem is its own text with contentArm in that place). "
                         "The rest of determine_container_main_size (the tuple match with guards, f32::INFINITY as `none`, the loops, "
                         "longest_line_length) is NOT tied by tier T. calculate_flex_item is translated whole after R8 (a parameter `p: &mut f32` / "
                         "`&mut Size<f32>` of a function returning `()` is an in/out value: `p__in` by value, `let mut p = p__in`, `*p` reads / writes "
                         "the local, the final values are returned; every occurrence of p must be `*p` or `p.method(..)`); the expected type of a "
                         "call fixes the type variables of its result (`size.map(|s| s.into())` at Size<Option<f32>> / Size<AvailableSpace>); "
                         "Props/TieFlexProg2.lean proves it, called with container_size / node_inner_size / direction of the constants, equal to "
                         "FlexModel.calculateFlexItem read as a generated program; calculate_layout_line and final_layout_pass are translated whole: "
                         "`for x in P.iter_mut().rev()` is the loop over List.reverse P with the updated list reversed back; a call statement of an "
                         "R8 function is rewritten by R9 (`g(tree, x, &mut a, v, b);` => `let (a1, b1) = g(tree, &mut x, a, v, b); a = a1; b = b1;`: "
                         "in/out arguments by value, final values assigned back; the loop variable of an iter_mut loop passed on is its place; "
                         "cfg-gated parameters / arguments resolved by the build configuration); Props/TieFlexProg2.lean proves them equal to "
                         "FlexModel.calculateLayoutLine / finalLayoutPass read as generated programs. Of compute_preliminary only the hidden-children loop "
                         "is translated (the consecutive statements `let len = tree.child_count(node);` / `for order in 0..len {..}`, which write "
                         "no variable of the enclosing function, as a function of (tree, node)); compute_preliminary_hidden_loop_eq proves it equal "
                         "to BlockModel.hiddenLoop on the child styles under child_count node = n, get_child_id node i = i; the rest of "
                         "compute_preliminary and compute_flexbox_layout as a whole are NOT tied by tier T")
for _pid in ("C07", "C04", "C12", "C06", "C05", "C16"):
    _add_tie(_pid, "TaffyVerif.Props.TieFlexProg2", TIE_FLEXPROG2)
    PROPS[_pid]["trusted_base"] = list(PROPS[_pid].get("trusted_base", [])) + [TIE_FLEXPROG2_TRUSTED]

# Tier T for the slice / Vec / iterator code of the grid (extract/src/{slices,gridinit}.rs): effects (checked u16 arithmetic, unwrap)
# in Except GErr in Rust's evaluation order, slices / finite iterators as Lists, cycle() / repeat as Slice.Stream, loops as folds over
# the tuple of the locals they assign (vocabulary: Model/SliceOps.lean). Generated/TrackFns.lean: the track sizing functions of
# style/grid.rs, GridTrack's constructors and small methods, TrackCounts::len, Size::get_abs; Generated/GridInit.lean: all of
# compute/grid/explicit_grid.rs (compute_explicit_grid_size_in_axis, create_implicit_tracks, initialize_grid_tracks);
# Generated/TrackSizing.lean: the pure functions of compute/grid/track_sizing.rs translated so far (flush_planned_base_size_increases,
# flush_planned_growth_limit_increases, initialize_track_sizes, find_size_of_fr, stretch_auto_tracks; f32::INFINITY-valued places are
# GridTracks.Ext; `loop { … break }` is Slice.loop with the model's fuel).
# Props/TieTrackFns.lean, Props/TieGridInit.lean prove generated = Model/GridTracksInit.lean for every argument and every [Num α]
# (the latter by induction over the template / the track lists: the model hoists the error checks and uses list comprehensions).
TIE_TRACKFNS = ["TieTrackFns." + t for t in (
    "get_abs_horizontal get_abs_vertical min_ZERO_eq min_AUTO_eq min_from_lp_eq min_definite_value_eq min_is_intrinsic_eq "
    "min_is_min_or_max_content_eq min_is_auto_eq min_is_max_content_eq min_uses_percentage_eq max_ZERO_eq max_AUTO_eq "
    "max_from_lp_eq max_definite_value_eq max_has_definite_value_eq max_definite_limit_eq max_is_intrinsic_eq "
    "max_is_max_content_alike_eq max_is_fr_eq max_is_auto_eq max_is_min_content_eq max_is_fit_content_eq "
    "max_is_max_or_fit_content_eq max_uses_percentage_eq trackfn_AUTO_eq min_sizing_function_eq max_sizing_function_eq "
    "has_fixed_component_eq is_auto_repetition_eq new_with_kind_eq new_eq gutter_eq collapse_eq is_flexible_eq "
    "uses_percentage_eq has_intrinsic_sizing_function_eq flex_factor_eq track_counts_len_eq").split()]
TIE_GRIDINIT = (["TieGridInit." + t for t in (
    "compute_explicit_grid_size_in_axis_eq compute_explicit_grid_size_columns_eq compute_explicit_grid_size_rows_eq "
    "create_implicit_tracks_eq initialize_grid_tracks_eq "
    # the pieces the three are assembled from
    "nonAutoTerm_eq track_definite_value_eq find_auto_repetition_eq nonRepeatingUsed_eq sumU16M_nonAuto sumF32M_nonRep "
    "finish_eq tail_eq create_fold foldl_pushPair foldl_pushAuto explicit_fold_ok explicit_fold_noauto explicit_fold_err "
    "collapse_first_last stream_repeat_auto stream_cycle_auto neg_part pos_part autoN_eq").split()]
    + ["Slice." + t for t in ("sumU16M_eq sumF32M_unwrap foldlM_append foldlM_pure Stream.take_cycle").split()])
TIE_TRACKS = ["TieTracks." + t for t in (
    "compute_free_space_eq fit_content_limit_eq ext_min_eq fit_content_limited_growth_limit_eq "
    "flush_planned_base_size_increases_eq flush_planned_growth_limit_increases_eq initialize_track_sizes_eq "
    "stretch_auto_tracks_eq find_size_of_fr_eq ofOption_toOpt mulGe_eq mulLt_eq frAccumulate_eq_foldl acc_fold loop_spec "
    "loop_isSome").split()]
# Props/TieTracks2.lean: the space-distribution functions of track_sizing.rs (extract/src/tracks2.rs -> Generated/TrackSizing2.lean)
TIE_TRACKS2 = ["TieTracks2." + t for t in (
    "distribute_space_up_to_limits_eq distribute_space_up_to_limits_ok distribute_space_up_to_limits_loop loop_spec loop_spec_ok "
    "mapAccum_spec lt_fin_eq le_add_eq divF_subF_eq minF_eq minStep_eq minByTotalCmp_eq filter_filter' extMinList_eq_none "
    "rat_neg_zero distribute_item_space_to_base_size_eq distribute_item_space_to_base_size_inner_eq distribute_item_space_to_growth_limit_eq "
    "maximise_tracks_eq dist_length finish_base_map finish_growth_map finiteOr_eq feq_inf_eq mapM_growth_limit rat_zero_not_lt").split()]
# Props/TieTracks3.lean: expand_flexible_tracks in interaction form (extract/src/tracks2.rs -> Generated/TrackSizing3.lean)
TIE_TRACKS3 = ["TieTracks3." + t for t in (
    "expand_flexible_tracks_run run_pure run_ofExcept run_bind run_call run_ite run_filterMapM maxByTotalCmp_eq indexRange_eq "
    "expand_map redo_eq").split()]
# Props/TieGridItem.lean: grid_item.rs (extract/src/griditem.rs -> Generated/GridItem.lean): struct GridItem, the pure methods, the
# tree-calling methods min/max_content_contribution[_cached] in interaction form (Slice.TreeProg, Model/SliceOps4.lean)
TIE_GRIDITEM = ["TieGridItem." + t for t in (
    "ofFields_eta placement_eq placement_indexes_eq track_range_excluding_lines_eq crosses_flexible_track_eq crosses_intrinsic_track_eq "
    "line_span_eq line_span_err line_span_ok span_ok span_eq all_isSome_eq unwrap_some unwrap_none foldlM_unwrap limit_eq "
    "spanned_track_limit_eq spanned_fixed_track_limit_eq indexRange_ok spanned_track_limit_ok spanned_fixed_track_limit_ok "
    "margins_axis_sums_with_baseline_shims_eq or_else_eq known_dimensions_eq available_space_eq available_space_ok as_abs_naive_eq "
    "min_content_contribution_eq max_content_contribution_eq available_space_cached_eq min_content_contribution_cached_eq "
    "max_content_contribution_cached_eq").split()]
# Props/TieGridItem2.lean: minimum_contribution[_cached] in interaction form
TIE_GRIDITEM += ["TieGridItem." + t for t in (
    "toGM_pure toGM_ofExcept_ok toGM_bind ofExcept_ok_bind or_isSome_eq minimum_contribution_eq minimum_contribution_cached_eq").split()]
# Props/TieGridItem3.lean: determine_if_item_crosses_flexible_or_intrinsic_tracks (track_sizing.rs) against GridModel.determineCrossings
TIE_GRIDITEM += ["TieGridItem." + t for t in (
    "index_eq index_err range_any_go range_any_eq range_any_go_ok range_any_ok bind_ok_inv determine_crossings_eq "
    "determine_crossings_ok").split()]
TIE_SLICES_TRUSTED = ("tier T (grid track initialisation): Generated/{TrackFns,GridInit}.lean are translated from src/style/grid.rs, "
                      "src/geometry.rs (AbsoluteAxis, Size::get_abs), src/compute/grid/types/{grid_track,grid_track_counts}.rs and "
                      "src/compute/grid/explicit_grid.rs on every run (verif/extract/src/{slices,gridinit}.rs, my code): u16 + - *, usize - % "
                      "and Option::unwrap are operations of Except GErr bound in Rust's evaluation order (usize + * are plain Nat "
                      "operations), slices / Vecs / finite iterators are Lists, cycle() / core::iter::repeat are Slice.Stream, a loop is a "
                      "fold over the tuple of the outer locals its body assigns, a &mut parameter is returned, Vec::reserve is not "
                      "modelled (its argument is evaluated); the vocabulary gets its meaning in Model/SliceOps.lean (hand-written); "
                      "MinTrackSizingFunction / MaxTrackSizingFunction are translated against the abstract inductives (tag -> constructor, "
                      "x.0.is_*() -> the tag set read off CompactLength::is_*, the constructor set of each wrapper compared with its pub "
                      "const fn constructors, calc() dropped); GridTrack::growth_limit has the type Ext; struct / enum definitions are "
                      "compared with the Lean types; Generated/TrackSizing.lean: the flush functions, initialize_track_sizes, find_size_of_fr, "
                      "stretch_auto_tracks of track_sizing.rs (a loop over &mut elements is List.map; `loop { ..; if c { break; } }` is Slice.loop "
                      "with the fuel of the hand-written model, tracks.len() + 2; `a * e >= c` / `a * e < c` with a possibly infinite e are "
                      "Slice.Ext.mulGe / mulLt; an extended value used in * / or stored in a plain f32 place "
                      "must be finite: Slice.Ext.toFinite, an explicit outcome shown unreachable by the tie; `tree` is used only as the calc "
                      "resolver and is not translated); Props/TieTrackFns.lean, Props/TieGridInit.lean and Props/TieTracks.lean prove every "
                      "generated definition equal to Model/GridTracksInit.lean / Model/FrSize.lean for all arguments; "
                      "Generated/TrackSizing2.lean (verif/extract/src/tracks2.rs): distribute_space_up_to_limits, maximise_tracks, "
                      "distribute_item_space_to_growth_limit, distribute_item_space_to_base_size (`while` with `if d { break; }` inside is Slice.loopM "
                      "under the fuel the model's callers pass, a loop over &mut elements that assigns outer locals is Slice.mapAccum, "
                      "min_by(total_cmp) is Slice.Ext.minByTotalCmp (zeros not told apart), the closure parameter track_limit answers an Ext, "
                      "(limit - x) / p is Slice.Ext.divF with the convention of Ext.subDiv, 0.01 is Num.ofNat 1 / Num.ofNat 100; vocabulary: "
                      "Model/SliceOps2.lean); Props/TieTracks2.lean proves them equal to Model/FrSize.lean for all arguments and closures under "
                      "the stated hypotheses -0.0 == 0.0 (maximise_tracks: also not 0.0 < 0.0 and, under max-content, finite growth limits); "
                      "Generated/TrackSizing3.lean: expand_flexible_tracks as a program of Slice.ItemProg over an abstract GridItem "
                      "(Model/SliceOps3.lean; its pure methods are parameters, max_content_contribution_cached is a program node, "
                      "&axis_tracks[range] panics out of range, max_by(total_cmp) is Slice.maxByTotalCmp); Props/TieTracks3.lean: run with the "
                      "oracle items of Model/FrSize.lean it answers expandFlexibleTracks")


def _add_tie_slices(pid):
    c = PROPS[pid]
    for module, theorems in (("TaffyVerif.Props.TieTrackFns", TIE_TRACKFNS), ("TaffyVerif.Props.TieGridInit", TIE_GRIDINIT),
                             ("TaffyVerif.Props.TieTracks", TIE_TRACKS), ("TaffyVerif.Props.TieTracks2", TIE_TRACKS2),
                             ("TaffyVerif.Props.TieTracks3", TIE_TRACKS3), ("TaffyVerif.Props.TieGridItem3", TIE_GRIDITEM)):
        if pid == "C03" and module == "TaffyVerif.Props.TieGridItem3":
            continue
        if pid == "C12" and module in ("TaffyVerif.Props.TieTracks2", "TaffyVerif.Props.TieTracks3"):
            continue
        if module not in c["modules"]:
            c["modules"] = list(c["modules"]) + [module]
        c["theorems"] = list(c["theorems"]) + [t for t in theorems if t not in c["theorems"]]
    c["trusted_base"] = list(c.get("trusted_base", [])) + [TIE_SLICES_TRUSTED]


for _pid in ("C09", "C03", "C04", "C12"):
    _add_tie_slices(_pid)
# grid_item.rs is also part of C06's tier T (the measure_child_size queries of the grid items)
if "TaffyVerif.Props.TieGridItem3" not in PROPS["C06"]["modules"]:
    PROPS["C06"]["modules"] = list(PROPS["C06"]["modules"]) + ["TaffyVerif.Props.TieGridItem3"]
    PROPS["C06"]["theorems"] = list(PROPS["C06"]["theorems"]) + [t for t in TIE_GRIDITEM if t not in PROPS["C06"]["theorems"]]

# Tier T for TaffyTree's structural methods (src/tree/taffy_tree.rs): every statement of every structural method is translated from
# the source on every run (extract/src/treeops.rs -> Generated/TreeOps.lean, programs of the monad Model/TreeInterp.lean);
# Props/TieTree.lean proves each translated method equal to the hand-written model function of Model/Tree.lean on EVERY state and
# argument (panics and index errors included), hence the whole `step` and every history; the mark_dirty table of Generated/Facts.lean
# is built from the same walk (dirty_table_consistent).
TIE_TREE = ["TieTree." + t for t in (
    "step_eq runH_eq generated_inv_no_panic dirty_table_consistent NodeData_new_eq with_capacity_eq new_eq new_leaf_eq "
    "new_leaf_with_context_eq new_with_children_eq clear_eq remove_eq set_node_context_eq get_node_context_eq add_child_eq "
    "insert_child_at_index_eq set_children_eq remove_child_eq remove_child_at_index_eq remove_children_range_eq "
    "replace_child_at_index_eq child_at_index_eq total_node_count_eq child_count_eq children_eq parent_eq "
    "forEach_parentsAssign forEach_reparent forEach_push remove_markDirty_site_witness").split()]
TIE_TREE_TRUSTED = ("tier T (structural methods of TaffyTree): Generated/TreeOps.lean is translated from src/tree/taffy_tree.rs on every run "
                    "(verif/extract/src/treeops.rs, statement by statement, a closed list of recognised shapes; anything else is an "
                    "EXTRACT-ERROR); the statement vocabulary (slot-map calls, Vec methods as list functions with their panics, return Err / ? / "
                    "unwrap) gets its meaning in Model/TreeInterp.lean (hand-written, over Model/SlotMap.lean); Props/TieTree.lean proves every "
                    "translated method equal to Model/Tree.lean for all states and arguments. Conventions checked or stated by the translator: "
                    "NodeId<->DefaultKey conversions are the identity; NodeData is has_context only and the Style argument is dropped; "
                    "self.mark_dirty(n) is its first panic site nodes[n] (the text of mark_dirty is pinned); remove_children_range's generic range "
                    "is start..end; struct TaffyTree's field types, NodeData::new and TaffyError::ChildIndexOutOfBounds are compared with the model")


def _add_tie_tree(pid):
    c = PROPS[pid]
    c["modules"] = list(c["modules"]) + ["TaffyVerif.Props.TieTree"]
    c["theorems"] = list(c["theorems"]) + [t for t in TIE_TREE if t not in c["theorems"]]
    c["trusted_base"] = list(c.get("trusted_base", [])) + [TIE_TREE_TRUSTED]


for _pid in ("C14", "C15", "C01"):
    _add_tie_tree(_pid)

# Tier T for the grid copy of the absolute-positioning code (task R; extract/src/absmod.rs): src/compute/grid/alignment.rs in full ->
# Generated/GridAlign.lean (`align_item_within_area`, pure; `align_and_position_item` in interaction form over Gen.Tree.Prog as a function
# of the child's style) and Generated/GridAlignTracks.lean (`align_tracks`, slices.rs). Props/TieAbsPos.lean proves them equal to
# AbsPos.alignItemWithinArea, GridModel.alignAndPositionItem / AbsPos.absGrid and GridTracks.alignTracks for every argument and [Num α].
TIE_ABSPOS = ["TieAbsPos." + t for t in (
    "align_item_within_area_eq align_tracks_eq align_and_position_item_eq align_and_position_item_absGrid align_and_position_item_GM "
    # the pieces
    "line_sum_eq autoCount_eq stepBy_count_aux skip1_stepBy2_count mapIdxAccum_alignLoop resolve_to_option_eq "
    "size_dim_f32_maybe_resolve_eq widthFill_eq heightFill_eq knownSrc_eq align_and_position_item_src "
    # flexbox.rs perform_absolute_layout_on_absolute_children: the skip test and the loop body for one child
    "abs_skip_eq abs_item_eq abs_item_absFlex abs_item_ProgM abs_item_src FlexSrc.fillWidth_eq FlexSrc.fillHeight_eq "
    "FlexSrc.known_eq FlexSrc.location_eq toProgM_ite lpa_f32_maybe_resolve_some has_non_zero_area_eq "
    # ... and the whole function (the loop over 0..child_count with its three header queries)
    "abs_item_order_truncated abs_item_needs_isRow_witness progM_bind_assoc abs_loop_run "
    "perform_absolute_layout_on_absolute_children_eq").split()]
TIE_ABSPOS_TRUSTED = ("tier T (grid alignment / absolute positioning): Generated/GridAlign.lean and Generated/GridAlignTracks.lean are translated from "
                      "src/compute/grid/alignment.rs on every run (verif/extract/src/absmod.rs; helpers Line::sum/map, Rect::map/horizontal_components/"
                      "vertical_components of geometry.rs, LengthPercentageAuto::resolve_to_option of style/dimension.rs, Size<Dimension>::maybe_resolve(Size<f32>) "
                      "of util/resolve.rs are translated there too). align_and_position_item is in interaction form over Gen.Tree.Prog: the statement "
                      "`let style = tree.get_grid_child_style(node);` (checked: exactly one, a top-level statement, no tree interaction before it) is not a node "
                      "of the program, its answer is the parameter `style` seen through GridItemStyle: CoreStyle (both trait declarations checked); "
                      "perform_child_layout and set_unrounded_layout are nodes in the Rust order; the calc resolver closures are dropped; `o.or_else(|| …)` / "
                      "`o.unwrap_or_else(|| …)` with pure closures are `match o with | some v => some v | none => …` / Option.getD (early returns inside the "
                      "closure are pushed into the branches); struct InBothAbsAxis is generated from the source. align_tracks: `iter().skip(1).step_by(2)` is "
                      "Slice.stepBy 2 (List.drop 1 ..), `iter_mut().enumerate().for_each(|(i, track)| …)` with the outer accumulator `total_offset` is "
                      "Slice.mapIdxAccum (Model/SliceOps.lean, hand-written), `i % 2` with a literal divisor is plain Nat.mod. "
                      "Generated/FlexAbs.lean: src/compute/flexbox.rs perform_absolute_layout_on_absolute_children. Its statements are compared with the "
                      "scheme `lets over constants; let mut content_size = Size::ZERO; for order in 0..tree.child_count(node) { let child = "
                      "tree.get_child_id(node, order); let child_style = tree.get_flexbox_child_style(child); if SKIP { continue; } BODY } content_size` "
                      "(any other shape is an EXTRACT-ERROR); SKIP is translated as the pure function abs_skip, `lets; BODY` as the interaction program "
                      "abs_item over Gen.Tree.Prog (parameters: constants, order, child, content_size and the child's style seen through FlexboxItemStyle: "
                      "CoreStyle; a statement `if [let PAT =] e { … }` that only updates one local is `let x := match … | _ => x`), and the loop itself is emitted "
                      "from the scheme over a generated program type with the three header queries (signatures compared with the trait declarations; "
                      "`0..n` is List.range n). `order as u32` is `order % 2^32`: the ties assume the child index < 2^32 "
                      "(TieAbsPos.abs_item_order_truncated shows the truncation for every input; the model stores the index) and constants.is_row = "
                      "constants.dir.is_row() (true of compute_constants' result). runFlex / toProgM / toGM (Props/TieAbsPos.lean, hand-written) give "
                      "the generated program types their meaning in the models' ProgM / GM with child id = child index")


def _add_tie_abspos(pid):
    c = PROPS[pid]
    if "TaffyVerif.Props.TieAbsPos" not in c["modules"]:
        c["modules"] = list(c["modules"]) + ["TaffyVerif.Props.TieAbsPos"]
    c["theorems"] = list(c["theorems"]) + [t for t in TIE_ABSPOS if t not in c["theorems"]]
    c["trusted_base"] = list(c.get("trusted_base", [])) + [TIE_ABSPOS_TRUSTED]


for _pid in ("C11", "C06", "C12", "C04"):
    _add_tie_abspos(_pid)


# C03 (finiteness): the models instantiated at the extended numbers ER = fin q | +inf | -inf | nan (Model/ExtNum.lean, IEEE-faithful except
# that overflow of finite arithmetic and the sign of zero are not modelled): leaf, root driver, block and flex programs and the tree-level
# evaluator over them keep every number finite (Props/C03Finite.lean, Props/C03FiniteFlex.lean)
C03_FINITE = ['C03Finite.leaf_finite_partial', 'C03Finite.root_leaf_finite_partial', 'C03Finite.root_leaf_finite_measureSpec_partial', 'C03Finite.root_input_finite_partial', 'C03Finite.sGood_fin', 'C03Finite.leaf_ratio_zero_not_finite', 'C03Finite.leaf_finite_false_for_ratio_zero', 'C03Finite.block_finite_partial', 'C03Finite.block_run_finite_partial', 'C03Finite.block_placeItem_finite_partial', 'C03Finite.block_absItem_finite_partial', 'C03Finite.csGood_fin', 'C03Finite.eval_finite_partial', 'C03Finite.caches_finite', 'C03Finite.eval_finite_algs_partial', 'C03Finite.eval_finite_block_leaf_trees_partial', 'C03Finite.NSFin_at', 'C03Finite.root_pass_finite_block_leaf_trees_partial', 'C03Finite.relayout_finite_block_leaf_trees_partial', 'C03Finite.block_ratio_zero_inf_and_nan', 'C03Finite.tGood_ok', 'C03Finite.flex_finite_partial', 'C03Finite.flex_resolve_flexible_lengths_finite', 'C03Finite.flex_distribute_finite', 'C03Finite.flex_stretch_division_by_zero_dropped', 'C03Finite.sFlex_fin', 'C03Finite.csFlex_fin', 'C03Finite.abs_block_finite_partial', 'C03Finite.abs_flex_finite_partial', 'C03Finite.abs_grid_finite_partial', 'C03Finite.algFin_flex', 'C03Finite.eval_finite_block_flex_leaf_trees_partial', 'C03Finite.root_pass_finite_block_flex_leaf_trees_partial', 'C03Finite.relayout_finite_block_flex_leaf_trees_partial', 'C03Finite.tFlex_ok']


def _add_c03_finite():
    c = PROPS["C03"]
    c["modules"] = list(c["modules"]) + ["TaffyVerif.Props.C03Finite", "TaffyVerif.Props.C03FiniteFlex"]
    c["theorems"] = list(c["theorems"]) + [t for t in C03_FINITE if t not in c["theorems"]]
    c["trusted_base"] = list(c.get("trusted_base", [])) + [
        "finiteness theorems are about the models at the extended-number instance ER (Model/ExtNum.lean; compared with Float32 on a 9x9 table of "
        "special values by #guard): division by zero, inf - inf, 0 * inf and the f32::INFINITY sentinels are modelled; overflow and rounding of finite "
        "f32 arithmetic and the sign of zero are not"]


_add_c03_finite()


# C03 finiteness, grid program (Props/C03FiniteGrid.lean; task Y): walked up to the two distribution-loop parts of track sizing
C03_FINITE_GRID = [
    "C03Finite.eval_finite_all_trees_partial", "C03Finite.root_pass_finite_all_trees_partial",
    "C03Finite.relayout_finite_all_trees_partial", "C03Finite.gridAlgFin_grid", "C03Finite.tGrid_ok",
    "C03Finite.getD_ne_spaceBetween",
    "C03Finite.grid_finite_partial", "C03Finite.algFin_grid_partial",
    "C03Finite.grid_sizing_finite", "C03Finite.grid_intrinsic_sizes_finite",
    "C03Finite.grid_sizing_finite_of_parts", "C03Finite.grid_sizing_finite_of_intrinsic",
    "C03Finite.grid_maximise_tracks_finite", "C03Finite.grid_initialize_tracks_finite",
    "C03Finite.grid_distribute_space_up_to_limits_finite", "C03Finite.grid_distribute_item_space_finite",
    "C03Finite.grid_finiteE_of_sizing_partial", "C03Finite.grid_finite_of_sizing_partial",
    "C03Finite.algFin_grid_of_sizing_partial", "C03Finite.fin_style_default",
    "C03Finite.grid_ctx_finite", "C03Finite.grid_align_tracks_finite", "C03Finite.grid_align_and_position_item_finite",
    "C03Finite.grid_tail_finite", "C03Finite.grid_step7_finite_of_sizing", "C03Finite.grid_item_contributions_finite",
    "C03Finite.sGrid_fin", "C03Finite.csGrid_fin",
    "C03Finite.grid_gutter_adjustment_finite", "C03Finite.grid_gutter_step_finite", "C03Finite.grid_gutter_step_nsb_finite",
    "C03Finite.grid_initialize_tracks_odd",
    "C03Finite.grid_gutter_adjustment_division_by_zero_dropped", "C03Finite.grid_find_size_of_fr_finite",
    "C03Finite.grid_stretch_auto_tracks_finite",
]


def _add_c03_finite_grid():
    c = PROPS["C03"]
    c["modules"] = list(c["modules"]) + ["TaffyVerif.Props.C03FiniteGrid"]
    c["theorems"] = list(c["theorems"]) + [t for t in C03_FINITE_GRID if t not in c["theorems"]]
    c["level_text"] = c["level_text"] + (
        " Finiteness of the grid program (Props/C03FiniteGrid.lean, at the extended numbers): every query input, every layout set and the output of "
        "computeGridLayout are finite for finite styles, finite track functions and finite inputs and child answers (grid_finite_partial, "
        "algFin_grid_partial), hence eval/root_pass/relayout_finite_all_trees_partial for every style tree of leaves, block, flex and grid containers.")
    c["assumptions"] = list(c.get("assumptions", [])) + [
        "grid finiteness theorems: track sizing functions are finite numbers, and align-content / justify-content are not space-between (the gutter "
        "adjustment divides by a weighted track count that is 0 for space-between on a 3- or 4-entry track vector; on the odd-length vectors the code "
        "builds the value is computed and dropped — witness C03Finite.grid_gutter_adjustment_division_by_zero_dropped; that the four sizing runs keep "
        "the length odd is not threaded through yet), besides aspect_ratio != 0 (known finding of the leaf/block theorems)"]


_add_c03_finite_grid()


# C03 finiteness, grid program without the space-between restriction (Props/C03FiniteGrid2.lean; task Y, second part)
C03_FINITE_GRID2 = [
    "C03Finite.grid_finite_calm_partial", "C03Finite.algFin_grid_calm_partial",
    "C03Finite.eval_finite_all_trees_calm_partial", "C03Finite.root_pass_finite_all_trees_calm_partial",
    "C03Finite.relayout_finite_all_trees_calm_partial",
    "C03Finite.grid_sizing_finite_calm", "C03Finite.grid_sizing_keeps_odd", "C03Finite.grid_finite_and_safe",
    "C03Finite.grid_main_finite_calm", "C03Finite.grid_setup_result", "C03Finite.grid_setup_ranges_of_gridSafeB",
    "C03Finite.gridCalmS_gridCalm",
    "C03Finite.tGridSB_space_between", "C03Finite.tGridSB_safe", "C03Finite.tGridSB_ok", "C03Finite.tGridSB_root_pass_finite",
    "C03Finite.tGridSB_evaluated",
]


def _add_c03_finite_grid2():
    c = PROPS["C03"]
    c["modules"] = list(c["modules"]) + ["TaffyVerif.Props.C03FiniteGrid2"]
    c["theorems"] = list(c["theorems"]) + [t for t in C03_FINITE_GRID2 if t not in c["theorems"]]
    c["level_text"] = c["level_text"] + (
        " Without the alignment restriction (Props/C03FiniteGrid2.lean): on grid containers that pass the decidable check gridSafeB (every item's track "
        "range non-empty and inside its axis' vector; implies GridCalm) the four track-sizing runs keep both track vectors at odd length "
        "(grid_sizing_keeps_odd), so the one division by zero of the gutter adjustment is never stored, and grid_finite_calm_partial / "
        "eval|root_pass|relayout_finite_all_trees_calm_partial hold for every content alignment, space-between included.")


_add_c03_finite_grid2()


# C03 (totality): the grid program cannot panic (no overflow in the checked integer code, no out-of-range track index, no
# fuel exhaustion) whenever the decidable precondition gridSafeB holds — proved on Model/Grid.lean (computeGridLayoutE makes
# every panic an explicit outcome)
PROPS["C03"]["modules"] = list(PROPS["C03"]["modules"]) + [m for m in EVALGRID_MODULES if m not in PROPS["C03"]["modules"]]
PROPS["C03"]["theorems"] = list(PROPS["C03"]["theorems"]) + [
    "EvalGrid.grid_noPanic_of_gridSafeB", "EvalGrid.noPanic_computeGridLayoutE", "EvalGrid.gridSafeB_sound",
    "EvalGrid.GSafe_trackSizingAlgorithmM", "EvalGrid.tryIntoTrackVecIndex_spec", "EvalGrid.absTrackIndexes_in",
    "EvalGrid.GSafe_hiddenAbsLoop"]

# C07 / C11 lifted from the component functions to the WHOLE interaction programs (Model/Flex.lean, Model/Block.lean,
# Model/Grid.lean): the theorems speak about the layouts the programs hand to set_unrounded_layout, in every PerformLayout
# run (every family of children answering the queries; Lift.lays / Lift.res = projections of C04.runO)
PROPS["C07"]["modules"] = list(PROPS["C07"]["modules"]) + ["TaffyVerif.Props.C07Flex"]
PROPS["C07"]["theorems"] = list(PROPS["C07"]["theorems"]) + [
    "C07Flex.flex_program_sets_once", "C07Flex.flex_program_lines_partition", "C07Flex.flex_program_lines_nowrap",
    "C07Flex.flex_program_line_order_no_overlap", "C07Flex.flex_program_line_order_no_overlap_pairs",
    "C07Flex.flex_program_gap_of_length", "C07Flex.mainOK_of_style",
    "C07Flex.flex_program_flexibility_exhausted", "C07Flex.flexBaseItems_fields",
    "C07Flex.Ex.kids_mainOK", "C07Flex.Ex.kids_childWF", "C07Flex.Ex.orcA_nonneg", "C07Flex.Ex.orcB_honours",
    "C07Flex.Neg.flex_program_passes_non_ItemWF", "C07Flex.Neg.flex_program_exhausted_false_without_maxPb",
    "C07Flex.Neg.flex_program_target_below_padding_border",
    # supporting lemmas worth auditing by name
    "Lift.flexRun_lays", "Lift.flexRun_size", "Lift.flexRun_line_order", "Lift.flexRun_exhausted",
    "Lift.lineLays_mbox", "Lift.mshape_aligned", "Lift.Post_flexPrefix_all", "Lift.itemWF_fbFinish", "Lift.rfl_outer",
    "Lift.honoursKnownMain_of_honoursKnown",
]
PROPS["C07"]["assumptions"] = list(PROPS["C07"]["assumptions"]) + [
    "program-level order/no-overlap (C07Flex): the children return main sizes >= 0 (the size SET is the size the child "
    "returns from perform_child_layout, not target_size); main gap >= 0; main-axis margins >= 0, default main-axis insets",
    "program-level flexibility-exhausted (C07Flex): flex-wrap nowrap, definite inner main size, each non-zero flex factor "
    ">= 1, padding+border >= 0, max main size (if any) >= padding+border (without it the lift is FALSE: "
    "C07Flex.Neg.flex_program_exhausted_false_without_maxPb, replayed on the real TaffyTree), and the children return the "
    "main size they are told (OracleHonoursKnownMain; real leaves/containers do when the target is >= their padding+border: "
    "compute_leaf_layout returns known_dimensions.maybe_max(padding_border); it fails below: "
    "C07Flex.Neg.flex_program_target_below_padding_border)",
]
PROPS["C11"]["modules"] = list(PROPS["C11"]["modules"]) + ["TaffyVerif.Props.C11Progs"]
PROPS["C11"]["theorems"] = list(PROPS["C11"]["theorems"]) + [
    "C11Progs.block_program_abs_layout", "C11Progs.block_failures_static_x", "C11Progs.block_failures_static_y",
    "C11Progs.block_program_abs_equations", "C11Progs.block_obsX_static", "C11Progs.block_obsY_static",
    "C11Progs.block_program_start_inset_eq_x", "C11Progs.block_program_start_inset_eq_y",
    "C11Progs.block_program_end_inset_eq_x", "C11Progs.block_program_end_inset_eq_y",
    "C11Progs.block_program_stretch_size_eq_x", "C11Progs.block_program_stretch_size_eq_y",
    "C11Progs.flex_program_abs_layout", "C11Progs.flex_program_abs_equations",
    "C11Progs.flex_program_start_inset_eq_x", "C11Progs.flex_program_start_inset_eq_y",
    "C11Progs.flex_program_end_inset_eq_x", "C11Progs.flex_program_end_inset_eq_y",
    "C11Progs.flex_program_stretch_size_eq_x", "C11Progs.flex_program_stretch_size_eq_y",
    "C11Progs.grid_program_abs_layout", "C11Progs.grid_program_abs_equations",
    "C11Progs.grid_program_start_inset_eq_x", "C11Progs.grid_program_end_inset_eq_x",
    "C11Progs.Ex.grid_run_ok",
    # supporting lemmas worth auditing by name
    "Lift.absItem_lays", "Lift.blockRun_abs", "Lift.blockRun_lays", "Lift.flexRun_abs", "Lift.abLayout_eq_absFlex",
    "Lift.alignAndPositionItem_run", "Lift.hiddenAbsLoop_abs_auto", "Lift.closed_KAbs", "Lift.KAbs_computeGridLayoutE",
    "Lift.gridRun_abs", "Lift.SetsQ_run",
]
PROPS["C11"]["assumptions"] = list(PROPS["C11"]["assumptions"]) + [
    "program-level theorems (C11Progs): PerformLayout runs; the container's reported layout C has the run's output size and "
    "the container's border/scrollbar (BlockReported / ParentReported); no hypothesis on the children. Block: the static "
    "position is the one the in-flow pass computed (it enters the location only on an axis without insets). Grid: "
    "non-panicking runs (computeGridLayoutE returns ok) and children with grid-row/grid-column auto / auto; the known finding "
    "(end inset, padding box of negative extent) stays as the side condition inside Spec.endOk true",
]

# Tier T for grid item placement (src/compute/grid/{placement,implicit_grid}.rs, types/cell_occupancy.rs + the helpers of geometry.rs,
# style/grid.rs, grid_track_counts.rs they call): extract/src/placement.rs (statement level: mutation as shadowing, `for` as Occ.forM,
# `loop` as Occ.loop under the model's fuel, search loops as List.all, `&mut self` methods return the new self) on top of the expression
# translator of gridint.rs -> Generated/Placement.lean; Props/TiePlacement.lean proves generated = Model/GridPlacement.lean for all arguments.
TIE_PLACEMENT = ["TiePlacement." + t for t in (
    "other_axis_eq is_dense_eq primary_axis_eq in_both_get_eq grid_placement_eq from_raw_eq oz_line_range_to_track_range_eq "
    "track_counts_eq with_track_counts_eq track_area_is_unoccupied_eq line_area_is_unoccupied_eq last_of_type_eq "
    "place_definite_grid_item_eq loop_search_secondary place_definite_secondary_axis_item_eq loop_search_fixed_primary "
    "loop_search_both place_indefinitely_positioned_item_eq child_min_line_max_line_span_eq "
    "is_area_in_range_eq is_area_in_range_old_witness").split()]
TIE_PLACEMENT_TRUSTED = ("Generated/Placement.lean is produced by verif/extract (extract/src/placement.rs + gridint.rs, my code) from the Rust source on "
                         "every run: machine integers are Int with every arithmetic operation and `as` cast checked in Outcome (a lossy cast is "
                         "`.overflow`, stricter than Rust; an index written `e as usize` directly inside Grid::get/get_mut/iter_row/iter_col is "
                         "passed uncast and a negative value is out of bounds); the `grid` crate's Grid is the row-major list of "
                         "Model/GridPlacement.lean (vocabulary Occ.* in Model/PlacementOps.lean: gridNew, gridFromVec, unwrap, rposition, forM, "
                         "loop); NodeId, the item style and the two alignments passed on to GridItem::new_with_placement_style_and_order are not "
                         "modelled (a GridItem is its source order and its two spans)")
# second part (task V): the mutating functions of CellOccupancyMatrix (fold lemmas Occ.forM vs List.replicate / copyRows / markRows), the two
# occupancy queries, record_grid_placement (generated items = the model's items reversed, `auto` flag erased) and implicit_grid.rs'
# get_known_child_positions / compute_grid_size_estimate (`impl Iterator<Item = S>` is the list of styles, `for_each` a fold)
TIE_PLACEMENT2 = ["TiePlacement." + t for t in (
    "forM_push forM_push_range forM_copyRow forM_copyRows copy_row_body forM_markRow forM_markRows mark_nest "
    "expand_to_fit_range_eq mark_area_as_eq row_is_occupied_eq column_is_occupied_eq record_grid_placement_eq "
    "forM_known get_known_child_positions_eq OO_swap OO_impliedPositive OO_estRest estimateAxis_split "
    "compute_grid_size_estimate_eq phase1_step_eq phase2_step_eq phase4_step_eq estimate_then_matrix_eq").split()]
# third part (task V, goal 3): place_grid_items. The generated function keeps the lazy order of the adaptor chain
# `filter(p).map(to_origin_zero).for_each(place; record)`; place_grid_items_eq = the model in that order (placeGridItemsL, foldL), for all
# arguments; placeGridItemsL_okEq / place_grid_items_ok_iff / place_grid_items_isOk relate it to GridPlacement.placeGridItems (which converts a
# whole phase first): same .ok results, fail together; lazy_eager_failure_witness: the failure reported can differ
TIE_PLACEMENT3 = ["TiePlacement." + t for t in (
    "forM_foldL phase2_step_eq' phase4_step_eq' place_grid_items_eq OkEq.isOk OkEq.bind okEq_fold okEq_bind_fold phase1_foldO phase2_foldO "
    "phase4_foldO placeGridItemsL_okEq place_grid_items_ok_iff place_grid_items_isOk lazy_eager_failure_witness").split()]
for _pid in ("C08", "C03"):
    _add_tie(_pid, "TaffyVerif.Props.TiePlacement", TIE_PLACEMENT)
    _add_tie(_pid, "TaffyVerif.Props.TiePlacement2", TIE_PLACEMENT2)
    _add_tie(_pid, "TaffyVerif.Props.TiePlacement3", TIE_PLACEMENT3)
    PROPS[_pid]["trusted_base"] = list(PROPS[_pid].get("trusted_base", [])) + [TIE_PLACEMENT_TRUSTED]

HOOK_COMMITS = [
    "5207efe",
    "79decb2",
    "b64c8aa",
    "77857cc",
    "47836dd",
    "a52c44b",
    "7584438",
]

_pending = "check not built yet in this revision of /verif (planned, see DESIGN.md §8)"
NOT_APPLICABLE = {}


# Every property whose theorems are stated on a model that Tier T reaches says so in its level note: which Tie modules are
# obligations of the check (each proves "definition regenerated from the Rust source on this run = hand-written model definition").
TIE_WHAT = {
    "TieCache": "tree/cache.rs", "TieLayout": "tree/layout.rs", "TieMaybeMath": "util/math.rs", "TieResolve": "util/resolve.rs",
    "TieGrid": "grid coordinates / track counts / placements of style/grid.rs", "TieAlignment": "compute/common/alignment.rs",
    "TieContent": "compute/common/content_size.rs", "TieAxes": "flex axis accessors", "TieGridAxes": "grid axis accessors",
    "TieInput": "LayoutInput", "TieStyle": "style/mod.rs (Style::DEFAULT, getters)", "TieCompute": "compute/mod.rs (rounding of one node, hidden layout, compute_cached_layout)",
    "TieLeaf": "compute/leaf.rs in full", "TieLayoutTree": "tree/traits.rs (perform_child_layout)", "TieRoot": "compute_root_layout",
    "TieTree": "every structural method of TaffyTree", "TieFlexLine": "flexbox.rs: resolve_flexible_lengths, distribute_remaining_free_space",
    "TieFlex": "flexbox.rs: every function that does not call the tree, compute_constants, generate_anonymous_flex_items",
    "TieAbsPos": "grid/alignment.rs in full and flexbox.rs::perform_absolute_layout_on_absolute_children",
    "TieBlock": "compute/block.rs in full (interaction form)", "TieTrackFns": "track sizing functions, GridTrack",
    "TieGridInit": "grid/explicit_grid.rs in full", "TieTracks": "track_sizing.rs: initialisation, find_size_of_fr, stretch_auto_tracks, flush",
    "TieTracks2": "track_sizing.rs: distribute_space_up_to_limits, maximise_tracks, distribute_item_space_to_*",
    "TieTracks3": "track_sizing.rs: expand_flexible_tracks (interaction form)",
    "TieGridItem3": "grid/types/grid_item.rs: struct GridItem, every method of GridItem (the tree-calling ones in interaction form), track_sizing.rs: determine_if_item_crosses_flexible_or_intrinsic_tracks (Props/TieGridItem.lean + TieGridItem2.lean + TieGridItem3.lean)", "TiePlacement": "grid/placement.rs placement functions, CellOccupancyMatrix",
}
for _pid, _c in PROPS.items():
    _ties = [m.split(".")[-1] for m in _c.get("modules", []) if m.split(".")[-1].startswith("Tie")]
    if _ties and "Tier T obligations of this check" not in _c.get("level_note", ""):
        _c["level_note"] = (_c.get("level_note", "") + " Tier T obligations of this check (each module proves, for all arguments, that the definitions "
                            "regenerated from the Rust source on this run equal the hand-written model definitions the theorems are stated on; a "
                            "source change in a translated function breaks one of them or is an EXTRACT-ERROR): "
                            + "; ".join(f"{t} ({TIE_WHAT.get(t, 'see DESIGN.md §13.2')})" for t in _ties) + ".").strip()
