"""Per-property configuration of ./check: Lean modules, the theorems that are the proof obligations,
the harness/driver handler names, and the statements that go into the evidence."""

PROPS = {
    "C02": {
        "modules": ["TaffyVerif.Props.C02"],
        "theorems": [
            "C02.slot_lt", "C02.inv_runH", "C02.get_sound", "C02.hit_until_displaced_final",
            "C02.hit_until_displaced_measure", "C02.clear_misses", "C02.flag_agrees",
            "C02.hidden_never_cached", "C02.nan_key_misses",
        ],
        "harness": "C02", "driver": "C02", "monitor": True,
        "rule": "random get/store/clear/is_empty sequences on taffy::Cache over a colliding value pool "
                "(0, 1, 1±ε/2, 1+ε, 1+2ε, 7.5, NaN, −0.0, ∞, 100), keys reused and perturbed; thorough adds every "
                "length-3 sequence over a 58-op alphabet. Non-trivial = the sequence contains at least one cache hit; "
                "distinct = distinct request/answer transcripts.",
        "trusted_base": [
            "model of src/tree/cache.rs is hand-written (Model/Cache.lean); tied to the code by bit-exact comparison "
            "of every answer of the public Cache API on generated sequences",
            "theorems hold for every Num instance, hence also for the Float32 instance the tie executes; "
            "Lean's Float32 ==,<,-,abs are assumed to be IEEE binary32 as Rust's",
        ],
        "assumptions": ["compute_cache_slot is private: observed only through store/get behaviour"],
        "level_text": "Every finite history of get/store/clear/is_empty from Cache::new() is covered by theorems (induction over the "
                      "history, for every Num instance): a hit is explained by a live, same-mode, axis-compatible store and returns its "
                      "content; a live self-compatible store is hit; clear makes everything miss; hidden mode is never cached; the "
                      "is_empty field agrees with the observer; the slot index is < 9. The model is tied to cache.rs by bit-exact "
                      "comparison on generated sequences.",
        "level_note": "Trusted: Lean kernel; hand-written model of cache.rs (validated by the correspondence run, Float32 bit-exact); "
                      "Lean Float32 = IEEE binary32. Axioms: propext, Quot.sound.",
        "technique": "Lean 4 invariant proof by induction over operation histories + differential correspondence with taffy::Cache",
    },
}

HOOK_COMMITS = [
    "5207efe",
]

_pending = "check not built yet in this revision of /verif (planned, see DESIGN.md §8)"
NOT_APPLICABLE = {p: _pending for p in
                  ["C01", "C03", "C04", "C05", "C06", "C07", "C08", "C09", "C10", "C11", "C12", "C13", "C14", "C15", "C16", "C17", "C18", "C19"]}

