"""Per-property configuration of ./check: Lean modules, the theorems that are the proof obligations,
the harness/driver handler names, and the statements that go into the evidence."""

PROPS = {
    "C02": {
        "modules": ["TaffyVerif.Props.C02"],
        "theorems": [
            "C02.slot_lt", "C02.inv_runH", "C02.get_sound", "C02.hit_until_displaced_final",
            "C02.hit_until_displaced_measure", "C02.clear_misses", "C02.flag_agrees",
            "C02.hidden_never_cached", "C02.nan_key_misses",
        ],
        "harness": "C02", "driver": "C02", "monitor": True,
        "rule": "random get/store/clear/is_empty sequences on taffy::Cache over a colliding value pool "
                "(0, 1, 1±ε/2, 1+ε, 1+2ε, 7.5, NaN, −0.0, ∞, 100), keys reused and perturbed; thorough adds every "
                "length-3 sequence over a 58-op alphabet. Non-trivial = the sequence contains at least one cache hit; "
                "distinct = distinct request/answer transcripts.",
        "trusted_base": [
            "model of src/tree/cache.rs is hand-written (Model/Cache.lean); tied to the code by bit-exact comparison "
            "of every answer of the public Cache API on generated sequences",
            "theorems hold for every Num instance, hence also for the Float32 instance the tie executes; "
            "Lean's Float32 ==,<,-,abs are assumed to be IEEE binary32 as Rust's",
        ],
        "assumptions": ["compute_cache_slot is private: observed only through store/get behaviour"],
        "level_text": "Every finite history of get/store/clear/is_empty from Cache::new() is covered by theorems (induction over the "
                      "history, for every Num instance): a hit is explained by a live, same-mode, axis-compatible store and returns its "
                      "content; a live self-compatible store is hit; clear makes everything miss; hidden mode is never cached; the "
                      "is_empty field agrees with the observer; the slot index is < 9. The model is tied to cache.rs by bit-exact "
                      "comparison on generated sequences.",
        "level_note": "Trusted: Lean kernel; hand-written model of cache.rs (validated by the correspondence run, Float32 bit-exact); "
                      "Lean Float32 = IEEE binary32. Axioms: propext, Quot.sound.",
        "technique": "Lean 4 invariant proof by induction over operation histories + differential correspondence with taffy::Cache",
    },
}

PROPS["C18"] = {
    "modules": ["TaffyVerif.Props.C18"],
    "theorems": [
        "C18.pack_tag", "C18.pack_value", "C18.pack_low3", "C18.from_val_tag", "C18.from_val_value",
        "C18.tags_distinct", "C18.tags_small_nonzero_low3", "C18.calc_tag_zero",
        "C18.length_roundtrip", "C18.percent_roundtrip", "C18.fr_roundtrip", "C18.fit_content_px_roundtrip",
        "C18.fit_content_percent_roundtrip", "C18.unit_tags", "C18.numeric_not_calc", "C18.unit_not_calc",
        "C18.calc_roundtrip", "C18.calc_tag_separate", "C18.predicates_length", "C18.predicates_percent",
        "C18.predicates_fr", "C18.predicates_fit_content", "C18.predicates_unit", "C18.is_zero_iff",
        "C18.resolve_length", "C18.resolve_percent", "C18.resolve_auto", "C18.resolve_or_zero_spec", "C18.resolve_calc",
    ],
    "harness": "C18", "driver": "C18", "monitor": False,
    "rule": "stratified 32-bit payloads (every exponent, NaN payload edges, single-bit and low-byte patterns that would alias a tag "
            "under an off-by-one shift) × the five numeric constructors, each also resolved through LengthPercentage / "
            "LengthPercentageAuto / Dimension / Min-/MaxTrackSizingFunction against None/Some contexts, plus 8-aligned calc pointers; "
            "thorough additionally checks all 2^32 payloads × 5 constructors on the implementation against the theorems' conclusion. "
            "Distinct = distinct transcripts; every case is non-trivial (it constructs and reads back a value).",
    "trusted_base": [
        "Generated/CompactLength.lean is produced by /verif/extract (syn-based translator, my code) from the 64-bit arm of "
        "src/style/compact_length.rs under the default feature set; f32 values are modelled as their bit patterns "
        "(f32_to_bits / f32_from_bits are transmutes)",
        "typed wrappers and resolvers (dimension.rs, grid.rs Min/MaxTrackSizingFunction, resolve.rs) are hand-written in "
        "Model/Lengths.lean with f32 multiplication and the calc resolver as parameters; tied by the correspondence run",
    ],
    "assumptions": ["32-bit targets use a different cfg arm of CompactLengthInner that is not translated",
                    "serde (de)serialisation is not modelled"],
    "level_text": "For every 32-bit payload and every numeric constructor: tag and value round-trip bit-identically; tags are pairwise "
                  "distinct, fit the low byte and have a non-zero low-3-bit field; every non-null 8-aligned pointer is stored losslessly "
                  "as calc and its low byte equals none of the other tags; predicates agree with the constructor; resolution returns the "
                  "built value / basis·fraction / None / 0 as specified. Theorems are about definitions regenerated from the Rust source "
                  "on every run, so they are re-checked against what the code says now; wrappers are tied by bit-exact correspondence.",
    "level_note": "Trusted: Lean kernel; my Rust→Lean translator for the bit-manipulation fragment (cross-checked by running the "
                  "generated definitions against the implementation); hand-written wrapper/resolver model. Axioms: propext, "
                  "Classical.choice, Quot.sound (kernel-only proofs; no bv_decide, no native_decide).",
    "technique": "Lean 4 theorems over BitVec 64 definitions translated from the Rust source on every run + differential correspondence",
}

HOOK_COMMITS = [
    "5207efe",
]

_pending = "check not built yet in this revision of /verif (planned, see DESIGN.md §8)"
NOT_APPLICABLE = {p: _pending for p in
                  ["C01", "C03", "C04", "C05", "C06", "C07", "C08", "C09", "C10", "C11", "C12", "C13", "C14", "C15", "C16", "C17", "C19"]}

