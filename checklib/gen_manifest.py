#!/usr/bin/env python3
"""Regenerates /verif/MANIFEST.json from checklib/props.py (so the manifest is always in step with ./check)."""
import json, os, sys
HERE = os.path.dirname(os.path.abspath(__file__))
sys.path.insert(0, HERE)
from props import PROPS, NOT_APPLICABLE, HOOK_COMMITS

checks = []
for pid in sorted(PROPS):
    c = PROPS[pid]
    checks.append({
        "property_id": pid,
        "quick_cmd": f"./check {pid} --tier quick",
        "thorough_cmd": f"./check {pid} --tier thorough",
        "evidence_file": f"/verif/evidence/{pid}.json",
        "replay_cmd_template": f"./check {pid} --replay {{path}}",
        "engine": "lean4+correspondence",
        "level_claimed": {"category": "proof", "text": c["level_text"], "design_ref": c.get("design_ref", "DESIGN.md §8 " + pid)},
        "level_note": c["level_note"],
        "technique": c.get("technique", "Lean 4 theorems about a model + bit-exact model/implementation correspondence"),
    })
m = {
    "version": 1,
    "setup_cmd": "./setup.sh",
    "hooks": {
        "guard": "taffy_verif",
        "enable": "RUSTFLAGS=\"--cfg taffy_verif\" (set in /verif/harness/.cargo/config.toml; the harness path-depends on /repo)",
        "baseline_off_cmd": "cd /repo && cargo nextest run --workspace --no-fail-fast --offline --test-threads 8 || cargo test --workspace --no-fail-fast --offline",
        "source_commits": HOOK_COMMITS,
        "add_only": True,
    },
    "engines": [
        {"name": "lean4+correspondence", "path": "/verif/check",
         "serves_properties": sorted(PROPS),
         "kind_free_text": "Lean 4 model + theorems (lean/TaffyVerif), source extractor (extract/), Rust harness running the real code (harness/), line-protocol driver (lean/Main.lean), python driver ./check"},
    ],
    "checks": checks,
    "not_applicable": [{"property_id": p, "reason": r} for p, r in sorted(NOT_APPLICABLE.items()) if p not in PROPS],
    "notes": "See DESIGN.md. Known findings: known_findings.json. Seeded changes used to test the checks: seeded/.",
}
json.dump(m, open(os.path.join(HERE, "..", "MANIFEST.json"), "w"), indent=1)
print("MANIFEST.json written:", len(checks), "checks,", len(m["not_applicable"]), "not applicable")
